/-
  Helper lemmas for C10 (split stage): grouping equalities, tilings, order, literal matches,
  boundaries, one stage and chains of splits.  Core Lean only.
-/
import Kitoken.Spec.Split
namespace Kitoken.Proofs.Split

open Kitoken Kitoken.Spec Kitoken.Utf8

/-! ### grouping equalities -/

theorem invertGo_eq (len last : Nat) (ms : Ranges) :
    invertGo last ms ++ (if lastEnd last ms < len then [(lastEnd last ms, len)] else [])
      = gapsSpec len last ms := by
  fun_induction invertGo last ms <;> grind [lastEnd, gapsSpec]

theorem invert_eq (ms : Ranges) (len : Nat) : invert ms len = gapsSpec len 0 ms := by
  simpa [invert] using invertGo_eq len 0 ms

theorem expandGo_eq (len last : Nat) (ms : Ranges) :
    expandGo last ms ++ (if lastEnd last ms < len then [(lastEnd last ms, len)] else [])
      = isolateSpec len last ms := by
  fun_induction expandGo last ms <;> grind [lastEnd, isolateSpec]

theorem expand_eq (ms : Ranges) (len : Nat) : expand ms len = isolateSpec len 0 ms := by
  simpa [expand] using expandGo_eq len 0 ms

theorem mergeLeftGo_eq (len last : Nat) (ms : Ranges) :
    mergeLeftGo last ms ++ (if lastEnd last ms < len then [(lastEnd last ms, len)] else [])
      = mergeLeftSpec len last ms := by
  fun_induction mergeLeftGo last ms <;> grind [lastEnd, mergeLeftSpec]

theorem mergeLeft_eq (ms : Ranges) (len : Nat) : mergeLeft ms len = mergeLeftSpec len 0 ms := by
  simpa [mergeLeft] using mergeLeftGo_eq len 0 ms

/-- With a non-empty accumulator whose head ends at `last`, `mergeGo` continues `fuseAdjacent`. -/
theorem mergeGo_eq (ms : Ranges) : ∀ (last ps : Nat) (accTail : Ranges),
    mergeGo last ((ps, last) :: accTail) ms = accTail.reverse ++ fuseAdjacent ((ps, last) :: ms) := by
  induction ms with
  | nil => intro last ps accTail; simp [mergeGo, fuseAdjacent]
  | cons m ms ih =>
    intro last ps accTail
    obtain ⟨s, e⟩ := m
    by_cases h : s = last
    · simp [mergeGo, fuseAdjacent, h, ih]
    · simp [mergeGo, fuseAdjacent, h, ih]

theorem merge_eq_fuse (ms : Ranges) : merge ms = fuseAdjacent ms := by
  cases ms with
  | nil => simp [merge, mergeGo, fuseAdjacent]
  | cons m ms => obtain ⟨s, e⟩ := m; simp [merge, mergeGo, mergeGo_eq]

theorem merge_eq (ms : Ranges) (len : Nat) :
    expand (merge ms) len = isolateSpec len 0 (fuseAdjacent ms) := by
  rw [merge_eq_fuse, expand_eq]

/-- `mergeRightGo` without the final `setLastEnd`: every match ends where the next one starts,
    the last match keeps its end. -/
def mergeRightRaw : Ranges → Ranges
  | [] => []
  | [(s, e)] => [(s, e)]
  | (s, _) :: (s', e') :: rest => (s, s') :: mergeRightRaw ((s', e') :: rest)

theorem mergeRightGo_eq (ms : Ranges) : ∀ (last ps : Nat) (accTail : Ranges),
    mergeRightGo last ((ps, last) :: accTail) ms
      = accTail.reverse ++ mergeRightRaw ((ps, last) :: ms) := by
  induction ms with
  | nil => intro last ps accTail; simp [mergeRightGo, mergeRightRaw]
  | cons m ms ih =>
    intro last ps accTail
    obtain ⟨s, e⟩ := m
    by_cases h : s = last
    · subst h; simp [mergeRightGo, mergeRightRaw, ih]
    · simp [mergeRightGo, mergeRightRaw, h, ih]

theorem mergeRightRaw_head (s e : Nat) (rest : Ranges) :
    ∃ x r, mergeRightRaw ((s, e) :: rest) = (s, x) :: r := by
  cases rest with
  | nil => exact ⟨e, [], rfl⟩
  | cons m rest => obtain ⟨s', e'⟩ := m; exact ⟨s', _, rfl⟩

theorem setLastEnd_cons_cons (len : Nat) (r r' : Nat × Nat) (rs : Ranges) :
    setLastEnd len (r :: r' :: rs) = r :: setLastEnd len (r' :: rs) := by
  obtain ⟨a, b⟩ := r
  simp [setLastEnd]

theorem setLastEnd_raw (len : Nat) (ms : Ranges) :
    setLastEnd len (mergeRightRaw ms) = mergeRightTail len ms := by
  fun_induction mergeRightRaw ms with
  | case1 => rfl
  | case2 s e => rfl
  | case3 s e s' e' rest ih =>
    obtain ⟨x, r, hx⟩ := mergeRightRaw_head s' e' rest
    rw [hx] at ih ⊢
    rw [setLastEnd_cons_cons, ih, mergeRightTail]

theorem raw_eq_tail (len : Nat) (ms : Ranges) : ∀ from_, ms ≠ [] → lastEnd from_ ms = len →
    mergeRightRaw ms = mergeRightTail len ms := by
  fun_induction mergeRightRaw ms <;> grind [lastEnd, mergeRightTail, mergeRightRaw]

theorem chain_lastEnd_le (len : Nat) (ms : Ranges) : ∀ from_, Chain len from_ ms →
    lastEnd from_ ms ≤ len := by
  induction ms with
  | nil => intro f h; simpa [lastEnd, Chain] using h
  | cons m ms ih => intro f h; obtain ⟨s, e⟩ := m; exact ih e h.2.2

theorem mergeRightTail_head (len s e : Nat) (rest : Ranges) :
    ∃ x r, mergeRightTail len ((s, e) :: rest) = (s, x) :: r := by
  cases rest with
  | nil => exact ⟨len, [], rfl⟩
  | cons m rest => obtain ⟨s', e'⟩ := m; exact ⟨s', _, rfl⟩

/-- The `Chain` hypothesis of `mergeRight_eq` is needed: a match reaching beyond `len` keeps its end
    in the model, while the description ends the last range at `len`. -/
example : mergeRight [(2, 20)] 12 = [(0, 2), (2, 20)] ∧ mergeRightSpec 12 [(2, 20)] = [(0, 2), (2, 12)] := by
  decide

theorem mergeRight_eq (ms : Ranges) (len : Nat) (h : Chain len 0 ms) :
    mergeRight ms len = mergeRightSpec len ms := by
  cases ms with
  | nil => simp [mergeRight, mergeRightSpec]
  | cons m rest =>
    obtain ⟨s, e⟩ := m
    have hle := chain_lastEnd_le len _ 0 h
    have hgo : mergeRightGo 0 [] ((s, e) :: rest) = mergeRightRaw ((s, e) :: rest) := by
      simp [mergeRightGo, mergeRightGo_eq]
    have hout : (if lastEnd 0 ((s, e) :: rest) < len
          then setLastEnd len (mergeRightRaw ((s, e) :: rest)) else mergeRightRaw ((s, e) :: rest))
        = mergeRightTail len ((s, e) :: rest) := by
      split
      · exact setLastEnd_raw len _
      · exact raw_eq_tail len _ 0 (by simp) (by omega)
    obtain ⟨x, r, hx⟩ := mergeRightTail_head len s e rest
    simp only [mergeRight, List.isEmpty_cons, Bool.false_eq_true, if_false, hgo, hout, mergeRightSpec]
    rw [hx]
    by_cases h0 : s = 0 <;> simp [h0]

/-! ### tilings and order -/

theorem chain_iff_ordered (len : Nat) (ms : Ranges) : ∀ from_, Chain len from_ ms ↔ Ordered len from_ ms := by
  induction ms with
  | nil => intro f; simp [Chain, Ordered]
  | cons m ms ih => intro f; obtain ⟨s, e⟩ := m; simp [Chain, Ordered, ih]

theorem tiles_ordered (rs : Ranges) (len from_ : Nat) (h : Tiles len from_ rs) : Ordered len from_ rs := by
  induction rs generalizing from_ with
  | nil => simp [Tiles] at h; simp [Ordered, h]
  | cons r rs ih =>
    obtain ⟨s, e⟩ := r
    simp only [Tiles] at h
    exact ⟨by omega, h.2.1, ih e h.2.2⟩

theorem ordered_mono (len : Nat) (rs : Ranges) (a b : Nat) (hab : b ≤ a) (h : Ordered len a rs) :
    Ordered len b rs := by
  cases rs with
  | nil => simp [Ordered] at *; omega
  | cons r rs => obtain ⟨s, e⟩ := r; simp only [Ordered] at *; exact ⟨by omega, h.2⟩

theorem isolateSpec_tiles (len : Nat) (ms : Ranges) : ∀ from_, Chain len from_ ms →
    Tiles len from_ (isolateSpec len from_ ms) := by
  induction ms with
  | nil => intro f h; simp only [Chain] at h; simp only [isolateSpec]; split <;> simp [Tiles] <;> omega
  | cons m ms ih =>
    intro f h
    obtain ⟨s, e⟩ := m
    simp only [Chain] at h
    have := ih e h.2.2
    simp only [isolateSpec]
    split <;> simp_all [Tiles]

theorem expand_tiles (ms : Ranges) (len : Nat) (h : Chain len 0 ms) : Tiles len 0 (expand ms len) := by
  rw [expand_eq]; exact isolateSpec_tiles len ms 0 h

theorem fuseAdjacent_chain (len : Nat) (ms : Ranges) : ∀ from_, Chain len from_ ms →
    Chain len from_ (fuseAdjacent ms) := by
  fun_induction fuseAdjacent ms <;> grind [Chain]

theorem merge_tiles (ms : Ranges) (len : Nat) (h : Chain len 0 ms) :
    Tiles len 0 (expand (merge ms) len) := by
  rw [merge_eq]; exact isolateSpec_tiles len _ 0 (fuseAdjacent_chain len ms 0 h)

theorem mergeLeftSpec_tiles (len : Nat) (ms : Ranges) : ∀ from_, Chain len from_ ms →
    Tiles len from_ (mergeLeftSpec len from_ ms) := by
  induction ms with
  | nil => intro f h; simp only [Chain] at h; simp only [mergeLeftSpec]; split <;> simp [Tiles] <;> omega
  | cons m ms ih =>
    intro f h
    obtain ⟨s, e⟩ := m
    simp only [Chain] at h
    have := ih e h.2.2
    simp only [mergeLeftSpec, Tiles]
    exact ⟨trivial, by omega, this⟩

theorem mergeLeft_tiles (ms : Ranges) (len : Nat) (h : Chain len 0 ms) : Tiles len 0 (mergeLeft ms len) := by
  rw [mergeLeft_eq]; exact mergeLeftSpec_tiles len ms 0 h

theorem mergeRightTail_tiles (len : Nat) (rest : Ranges) : ∀ s e from_, Chain len from_ ((s, e) :: rest) →
    Tiles len s (mergeRightTail len ((s, e) :: rest)) := by
  induction rest with
  | nil =>
    intro s e f h
    simp only [Chain] at h
    simp only [mergeRightTail, Tiles]
    exact ⟨trivial, by omega, trivial⟩
  | cons m rest ih =>
    intro s e f h
    obtain ⟨s', e'⟩ := m
    have h' := h
    simp only [Chain] at h
    have := ih s' e' e h'.2.2
    simp only [mergeRightTail, Tiles]
    exact ⟨trivial, by omega, this⟩

theorem mergeRight_tiles (ms : Ranges) (len : Nat) (h : Chain len 0 ms) : Tiles len 0 (mergeRight ms len) := by
  rw [mergeRight_eq ms len h]
  cases ms with
  | nil => simp [mergeRightSpec, Tiles]
  | cons m rest =>
    obtain ⟨s, e⟩ := m
    have ht := mergeRightTail_tiles len rest s e 0 h
    simp only [mergeRightSpec]
    by_cases h0 : s = 0
    · subst h0; simpa using ht
    · obtain ⟨x, r, hx⟩ := mergeRightTail_head len s e rest
      simp only [h0, ne_eq, not_false_eq_true, if_true, List.singleton_append]
      simp only [Tiles]
      exact ⟨trivial, by omega, ht⟩

theorem gapsSpec_ordered (len : Nat) (ms : Ranges) : ∀ from_, Chain len from_ ms →
    Ordered len from_ (gapsSpec len from_ ms) := by
  induction ms with
  | nil => intro f h; simp only [Chain] at h; simp only [gapsSpec]; split <;> simp [Ordered] <;> omega
  | cons m ms ih =>
    intro f h
    obtain ⟨s, e⟩ := m
    simp only [Chain] at h
    have := ih e h.2.2
    simp only [gapsSpec]
    split
    · simp only [List.singleton_append, Ordered]
      exact ⟨Nat.le_refl _, h.1, ordered_mono len _ e s h.2.1 this⟩
    · exact ordered_mono len _ e f (by omega) (by simpa using this)

theorem invert_ordered (ms : Ranges) (len : Nat) (h : Chain len 0 ms) : Ordered len 0 (invert ms len) := by
  rw [invert_eq]; exact gapsSpec_ordered len ms 0 h

/-! ### literal patterns -/

theorem startsWith_length (hay needle : Bytes) (h : startsWith hay needle = true) :
    needle.length ≤ hay.length := by
  fun_induction startsWith hay needle <;> simp_all <;> omega

theorem findAllFrom_chain (needle : Bytes) (pos : Nat) (hay : Bytes) :
    ∀ from_ L, from_ ≤ pos → L = pos + hay.length →
      Chain L from_ ((findAllFrom needle pos hay).map fun a => (a, a + needle.length)) := by
  fun_induction findAllFrom needle pos hay with
  | case1 pos => intro f L hf hL; simp [Chain] at *; omega
  | case2 pos h t hm ih =>
    intro f L hf hL
    have hlen := startsWith_length _ _ hm.2
    simp only [List.map_cons, Chain]
    refine ⟨hf, by omega, ih _ _ (Nat.le_refl _) ?_⟩
    simp only [List.length_drop, List.length_cons] at *
    omega
  | case3 pos h t hm ih =>
    intro f L hf hL
    exact ih f L (by omega) (by simp only [List.length_cons] at hL; omega)

theorem range'_chain (len : Nat) (k : Nat) : ∀ start from_, from_ ≤ start → start + k ≤ len + 1 → from_ ≤ len →
    Chain len from_ ((List.range' start k).map fun a => (a, a + 0)) := by
  induction k with
  | zero => intro st f _ _ h3; simpa [Chain] using h3
  | succ k ih =>
    intro st f h1 h2 h3
    simp only [List.range'_succ, List.map_cons, Chain]
    exact ⟨h1, by omega, ih (st + 1) (st + 0) (by omega) (by omega) (by omega)⟩

theorem findAll_chain (needle text : Bytes) :
    Chain text.length 0 ((findAll needle text).map fun a => (a, a + needle.length)) := by
  unfold findAll
  split
  · rename_i h
    have hn : needle = [] := by simpa using h
    subst hn
    rw [List.range_eq_range']
    exact range'_chain text.length (text.length + 1) 0 0 (Nat.le_refl _) (by omega) (Nat.zero_le _)
  · exact findAllFrom_chain needle 0 text 0 text.length (Nat.le_refl _) (by omega)


theorem chain_mono (len : Nat) : ∀ (ms : Ranges) (a b : Nat), a ≤ b → Chain len b ms → Chain len a ms := by
  intro ms
  cases ms with
  | nil => intro a b hab h; simp only [Chain] at *; omega
  | cons m ms => intro a b hab h; obtain ⟨s, e⟩ := m; simp only [Chain] at *; exact ⟨by omega, h.2⟩

/-- Dropping matches from a chain leaves a chain (used for the character-boundary filter of F15). -/
theorem chain_sublist (len : Nat) : ∀ (ms' ms : Ranges) (from_ : Nat), List.Sublist ms' ms →
    Chain len from_ ms → Chain len from_ ms' := by
  intro ms' ms from_ hsub
  induction hsub generalizing from_ with
  | slnil => exact id
  | cons a _ ih =>
    intro h; obtain ⟨s, e⟩ := a; simp only [Chain] at h
    exact ih from_ (chain_mono len _ from_ e (by omega) h.2.2)
  | cons_cons a _ ih =>
    intro h; obtain ⟨s, e⟩ := a; simp only [Chain] at h ⊢
    exact ⟨h.1, h.2.1, ih e h.2.2⟩

theorem findAll_filter_chain (needle text : Bytes) (p : Nat → Bool) :
    Chain text.length 0 (((findAll needle text).filter p).map fun a => (a, a + needle.length)) :=
  chain_sublist text.length _ _ 0 (List.Sublist.map _ List.filter_sublist) (findAll_chain needle text)

/-! ### boundaries -/

/-- Both ends of every range satisfy `P`. -/
def AllP (P : Nat → Prop) (rs : Ranges) : Prop := ∀ r ∈ rs, P r.1 ∧ P r.2

@[simp] theorem allP_nil (P : Nat → Prop) : AllP P [] := by simp [AllP]

@[simp] theorem allP_cons (P : Nat → Prop) (a b : Nat) (rs : Ranges) :
    AllP P ((a, b) :: rs) ↔ (P a ∧ P b) ∧ AllP P rs := by simp [AllP]

@[simp] theorem allP_append (P : Nat → Prop) (as bs : Ranges) :
    AllP P (as ++ bs) ↔ AllP P as ∧ AllP P bs := by
  simp only [AllP, List.mem_append]
  constructor
  · intro h; exact ⟨fun r hr => h r (Or.inl hr), fun r hr => h r (Or.inr hr)⟩
  · intro h r hr; rcases hr with hr | hr; exact h.1 r hr; exact h.2 r hr

@[simp] theorem allP_reverse (P : Nat → Prop) (rs : Ranges) : AllP P rs.reverse ↔ AllP P rs := by
  simp [AllP]

theorem lastEnd_P (P : Nat → Prop) (last : Nat) (ms : Ranges) (hl : P last) (hm : AllP P ms) :
    P (lastEnd last ms) := by
  fun_induction lastEnd last ms <;> simp_all

theorem invertGo_allP (P : Nat → Prop) (last : Nat) (ms : Ranges) (hl : P last) (hm : AllP P ms) :
    AllP P (invertGo last ms) := by
  fun_induction invertGo last ms <;> simp_all

theorem expandGo_allP (P : Nat → Prop) (last : Nat) (ms : Ranges) (hl : P last) (hm : AllP P ms) :
    AllP P (expandGo last ms) := by
  fun_induction expandGo last ms <;> simp_all

theorem mergeLeftGo_allP (P : Nat → Prop) (last : Nat) (ms : Ranges) (hl : P last) (hm : AllP P ms) :
    AllP P (mergeLeftGo last ms) := by
  fun_induction mergeLeftGo last ms <;> simp_all

theorem mergeGo_allP (P : Nat → Prop) (last : Nat) (acc ms : Ranges) (ha : AllP P acc) (hm : AllP P ms) :
    AllP P (mergeGo last acc ms) := by
  fun_induction mergeGo last acc ms <;> simp_all

theorem mergeRightGo_allP (P : Nat → Prop) (last : Nat) (acc ms : Ranges) (ha : AllP P acc)
    (hm : AllP P ms) : AllP P (mergeRightGo last acc ms) := by
  fun_induction mergeRightGo last acc ms <;> simp_all

theorem setLastEnd_allP (P : Nat → Prop) (len : Nat) (rs : Ranges) (hl : P len) (hm : AllP P rs) :
    AllP P (setLastEnd len rs) := by
  fun_induction setLastEnd len rs with
  | case1 => simp
  | case2 s e => simp_all
  | case3 r rs _ ih => obtain ⟨a, b⟩ := r; simp_all

theorem tail_allP (P : Nat → Prop) (last len : Nat) (hl : P last) (hn : P len) :
    AllP P (if last < len then [(last, len)] else []) := by
  split <;> simp_all

theorem invert_allP (P : Nat → Prop) (ms : Ranges) (len : Nat) (h0 : P 0) (hn : P len)
    (hm : AllP P ms) : AllP P (invert ms len) := by
  simp only [invert, allP_append]
  exact ⟨invertGo_allP P 0 ms h0 hm, tail_allP P _ len (lastEnd_P P 0 ms h0 hm) hn⟩

theorem expand_allP (P : Nat → Prop) (ms : Ranges) (len : Nat) (h0 : P 0) (hn : P len)
    (hm : AllP P ms) : AllP P (expand ms len) := by
  simp only [expand, allP_append]
  exact ⟨expandGo_allP P 0 ms h0 hm, tail_allP P _ len (lastEnd_P P 0 ms h0 hm) hn⟩

theorem mergeLeft_allP (P : Nat → Prop) (ms : Ranges) (len : Nat) (h0 : P 0) (hn : P len)
    (hm : AllP P ms) : AllP P (mergeLeft ms len) := by
  simp only [mergeLeft, allP_append]
  exact ⟨mergeLeftGo_allP P 0 ms h0 hm, tail_allP P _ len (lastEnd_P P 0 ms h0 hm) hn⟩

theorem mergeRight_allP (P : Nat → Prop) (ms : Ranges) (len : Nat) (h0 : P 0) (hn : P len)
    (hm : AllP P ms) : AllP P (mergeRight ms len) := by
  unfold mergeRight
  split
  · simp [h0, hn]
  · have h1 : AllP P (mergeRightGo 0 [] ms) := mergeRightGo_allP P 0 [] ms (allP_nil P) hm
    have h2 : AllP P (if lastEnd 0 ms < len then setLastEnd len (mergeRightGo 0 [] ms)
        else mergeRightGo 0 [] ms) := by
      split
      · exact setLastEnd_allP P len _ hn h1
      · exact h1
    simp only
    split
    · rename_i s0 e0 rest heq
      rw [heq] at h2
      split <;> simp_all
    · rename_i heq
      rw [heq]; simp

theorem mem_boundariesOf (ms : Ranges) (len : Nat) :
    AllP (fun x => x ∈ boundariesOf ms len) ms := by
  intro r hr
  obtain ⟨s, e⟩ := r
  simp only [boundariesOf, List.mem_cons, List.mem_flatMap]
  exact ⟨Or.inr (Or.inr ⟨(s, e), hr, by simp⟩), Or.inr (Or.inr ⟨(s, e), hr, by simp⟩)⟩

/- Original statement (false: for an empty text `Split.split` answers `some []` without calling the
   pattern stage, so with `ext.findIter = fun _ _ => none`, `p = .regex ""`, `text = []` the
   hypothesis holds with `out = []` but `splitPattern ext text p = none`):

theorem boundaries_subset (ext : SplitExt) (p : SplitPattern) (b : SplitBehavior) (text : Bytes) (out : Ranges)
    (h : (Split.pattern p b).split ext text = some out) :
    ∃ ms, splitPattern ext text p = some ms ∧
      ∀ r ∈ out, r.1 ∈ boundariesOf ms text.length ∧ r.2 ∈ boundariesOf ms text.length
-/
example : ∃ (ext : SplitExt) (p : SplitPattern) (b : SplitBehavior) (text : Bytes) (out : Ranges),
    (Split.pattern p b).split ext text = some out ∧ splitPattern ext text p = none :=
  ⟨⟨fun _ _ => none, fun _ => none⟩, .regex "", .matches, [], [], rfl, rfl⟩

theorem boundaries_subset_partial (ext : SplitExt) (p : SplitPattern) (b : SplitBehavior) (text : Bytes)
    (out : Ranges) (hne : text ≠ []) (h : (Split.pattern p b).split ext text = some out) :
    ∃ ms, splitPattern ext text p = some ms ∧
      ∀ r ∈ out, r.1 ∈ boundariesOf ms text.length ∧ r.2 ∈ boundariesOf ms text.length := by
  have hemp : text.isEmpty = false := by cases text <;> simp_all
  simp only [Split.split, hemp, Bool.false_eq_true, if_false, Option.map_eq_some_iff] at h
  obtain ⟨ms, hms, hout⟩ := h
  refine ⟨ms, hms, ?_⟩
  have h0 : (fun x => x ∈ boundariesOf ms text.length) 0 := by simp [boundariesOf]
  have hn : (fun x => x ∈ boundariesOf ms text.length) text.length := by simp [boundariesOf]
  have hm := mem_boundariesOf ms text.length
  subst hout
  show AllP (fun x => x ∈ boundariesOf ms text.length) _
  cases b with
  | «matches» => exact hm
  | remove => exact invert_allP _ ms _ h0 hn hm
  | isolate => exact expand_allP _ ms _ h0 hn hm
  | merge => exact expand_allP _ _ _ h0 hn (mergeGo_allP _ 0 [] ms (allP_nil _) hm)
  | mergeLeft => exact mergeLeft_allP _ ms _ h0 hn hm
  | mergeRight => exact mergeRight_allP _ ms _ h0 hn hm

/-- The empty-text case excluded above: nothing is returned. -/
theorem split_empty (ext : SplitExt) (sp : Split) (out : Ranges) (h : sp.split ext [] = some out) :
    out = [] := by
  simpa [Split.split] using h.symm

/-! ### character starts and Unicode-script splitting -/

/-- Strictly increasing offsets, all `≥ lo` and `< len`. -/
def IncrFrom (len : Nat) : Nat → List Nat → Prop
  | lo, [] => lo ≤ len
  | lo, i :: is => lo ≤ i ∧ i < len ∧ IncrFrom len (i + 1) is

theorem incrFrom_mono (len : Nat) (is : List Nat) (a b : Nat) (hab : b ≤ a) (h : IncrFrom len a is) :
    IncrFrom len b is := by
  cases is with
  | nil => simp only [IncrFrom] at *; omega
  | cons i is => simp only [IncrFrom] at *; exact ⟨by omega, h.2⟩

theorem incrFrom_le (len : Nat) (is : List Nat) (lo : Nat) (h : IncrFrom len lo is) : lo ≤ len := by
  cases is with
  | nil => exact h
  | cons i is => simp only [IncrFrom] at h; omega

theorem charIndicesFrom_incr (pos : Nat) (bs : Bytes) : ∀ L, L = pos + bs.length →
    IncrFrom L pos ((charIndicesFrom pos bs).map (·.1)) := by
  fun_induction charIndicesFrom pos bs with
  | case1 pos => intro L hL; simp [IncrFrom] at *; omega
  | case2 pos b t r ih =>
    intro L hL
    have h1 : 0 < r.2 := decodeOne_pos b t
    have h2 : r.2 ≤ (b :: t).length := decodeOne_le (b :: t)
    simp only [List.map_cons, IncrFrom]
    refine ⟨Nat.le_refl _, ?_, incrFrom_mono L _ (pos + r.2) (pos + 1) (by omega) (ih L ?_)⟩
    · simp only [List.length_cons] at hL; omega
    · simp only [List.length_drop, List.length_cons] at *; omega

/-- Character starts are strictly increasing and inside the text. -/
theorem charStarts_incr (text : Bytes) : IncrFrom text.length 0 (charStarts text) :=
  charIndicesFrom_incr 0 text text.length (by omega)

theorem zip_incr (len : Nat) (starts : List Nat) : ∀ (scripts : List (Bool × Nat)) (lo : Nat),
    IncrFrom len lo starts →
    IncrFrom len lo (((starts.zip scripts).map fun (i, c, s) => (i, c, s)).map (·.1)) := by
  induction starts with
  | nil => intro sc lo h; simpa using h
  | cons i is ih =>
    intro sc lo h
    cases sc with
    | nil => simpa [IncrFrom] using incrFrom_le len _ lo h
    | cons c sc =>
      simp only [IncrFrom] at h
      simp only [List.zip_cons_cons, List.map_cons, IncrFrom]
      exact ⟨h.1, h.2.1, ih sc (i + 1) h.2.2⟩

theorem scriptGo_ordered (len : Nat) (prev : Option Nat) (last : Nat) (cs : List (Nat × Bool × Nat)) :
    ∀ lo, last ≤ lo → IncrFrom len lo (cs.map (·.1)) →
      Ordered len last ((scriptGo prev last cs).1 ++
        (if (scriptGo prev last cs).2 < len then [((scriptGo prev last cs).2, len)] else [])) := by
  fun_induction scriptGo prev last cs with
  | case1 prev last =>
    intro lo h1 h2
    simp only [List.map_nil, IncrFrom] at h2
    simp only [List.nil_append]
    split <;> simp [Ordered] <;> omega
  | case2 prev last i script cs ih =>
    intro lo h1 h2
    simp only [List.map_cons, IncrFrom] at h2
    exact ih (i + 1) (by omega) h2.2.2
  | case3 last i common script cs hc p hne r l heq ih =>
    intro lo h1 h2
    simp only [List.map_cons, IncrFrom] at h2
    have := ih (i + 1) (by omega) h2.2.2
    rw [heq] at this
    simp only [List.cons_append, Ordered]
    exact ⟨Nat.le_refl _, by omega, this⟩
  | case4 last i common script cs hc p heq ih =>
    intro lo h1 h2
    simp only [List.map_cons, IncrFrom] at h2
    exact ih (i + 1) (by omega) h2.2.2
  | case5 last i common script cs hc ih =>
    intro lo h1 h2
    simp only [List.map_cons, IncrFrom] at h2
    exact ih (i + 1) (by omega) h2.2.2

theorem splitUnicodeScript_ordered (text : Bytes) (scripts : List (Bool × Nat)) :
    Ordered text.length 0 (splitUnicodeScript text scripts) := by
  have h := scriptGo_ordered text.length none 0
    (((charStarts text).zip scripts).map fun (i, c, s) => (i, c, s)) 0 (Nat.le_refl _)
    (zip_incr text.length (charStarts text) scripts 0 (charStarts_incr text))
  simp only [splitUnicodeScript]
  exact h

/-! ### one split -/

theorem splitPattern_chain (ext : SplitExt) (hs : MatchesSane ext) (p : SplitPattern) (text : Bytes)
    (ms : Ranges) (h : splitPattern ext text p = some ms) : Chain text.length 0 ms := by
  cases p with
  | char c =>
    simp only [splitPattern, Option.some.injEq] at h
    subst h; exact findAll_chain _ text
  | string s =>
    simp only [splitPattern, Option.some.injEq] at h
    subst h; exact findAll_filter_chain s text _
  | regex p => exact hs p text ms h

theorem split_ordered (ext : SplitExt) (hs : MatchesSane ext) (sp : Split) (text : Bytes) (out : Ranges)
    (h : sp.split ext text = some out) : Ordered text.length 0 out := by
  by_cases hemp : text.isEmpty = true
  · simp only [Split.split, hemp, if_true, Option.some.injEq] at h
    subst h; simp [Ordered]
  · cases sp with
    | unicodeScript =>
      simp only [Split.split, hemp, Bool.false_eq_true, if_false, Option.map_eq_some_iff] at h
      obtain ⟨sc, _, hout⟩ := h
      subst hout; exact splitUnicodeScript_ordered text sc
    | pattern p b =>
      simp only [Split.split, hemp, Bool.false_eq_true, if_false, Option.map_eq_some_iff] at h
      obtain ⟨ms, hms, hout⟩ := h
      have hc := splitPattern_chain ext hs p text ms hms
      subst hout
      cases b with
      | «matches» => exact (chain_iff_ordered _ ms 0).1 hc
      | remove => exact invert_ordered ms _ hc
      | isolate => exact tiles_ordered _ _ 0 (expand_tiles ms _ hc)
      | merge => exact tiles_ordered _ _ 0 (merge_tiles ms _ hc)
      | mergeLeft => exact tiles_ordered _ _ 0 (mergeLeft_tiles ms _ hc)
      | mergeRight => exact tiles_ordered _ _ 0 (mergeRight_tiles ms _ hc)

/-! ### one stage and chains -/

theorem ordered_le (len : Nat) (rs : Ranges) : ∀ f, Ordered len f rs → f ≤ len := by
  induction rs with
  | nil => intro f h; exact h
  | cons r rs ih =>
    intro f h; obtain ⟨s, e⟩ := r
    simp only [Ordered] at h
    have := ih e h.2.2
    omega

theorem ordered_mem (len : Nat) (rs : Ranges) : ∀ f, Ordered len f rs → ∀ r ∈ rs,
    f ≤ r.1 ∧ r.1 ≤ r.2 ∧ r.2 ≤ len := by
  induction rs with
  | nil => intro f _ r hr; cases hr
  | cons r0 rs ih =>
    intro f h r hr
    obtain ⟨s, e⟩ := r0
    simp only [Ordered] at h
    rcases List.mem_cons.1 hr with rfl | hr
    · exact ⟨h.1, h.2.1, ordered_le len rs e h.2.2⟩
    · have := ih e h.2.2 r hr
      omega

theorem ordered_append (len mid : Nat) (as bs : Ranges) : ∀ f, Ordered mid f as → Ordered len mid bs →
    Ordered len f (as ++ bs) := by
  induction as with
  | nil => intro f h1 h2; exact ordered_mono len bs mid f h1 h2
  | cons a as ih =>
    intro f h1 h2
    obtain ⟨s, e⟩ := a
    simp only [Ordered] at h1
    simp only [List.cons_append, Ordered]
    exact ⟨h1.1, h1.2.1, ih e h1.2.2 h2⟩

theorem ordered_rebase (n d : Nat) (rs : Ranges) : ∀ f, Ordered n f rs →
    Ordered (n + d) (f + d) (rs.map fun (a, b) => (a + d, b + d)) := by
  induction rs with
  | nil => intro f h; simp only [List.map_nil, Ordered] at *; omega
  | cons r rs ih =>
    intro f h
    obtain ⟨s, e⟩ := r
    simp only [Ordered] at h
    simp only [List.map_cons, Ordered]
    exact ⟨by omega, by omega, ih e h.2.2⟩

theorem stage_refines_from (ext : SplitExt) (hs : MatchesSane ext) (sp : Split) (text : Bytes)
    (rs : Ranges) : ∀ (f : Nat) (out : Ranges), Ordered text.length f rs →
      splitStage ext sp text rs = some out →
      Ordered text.length f out ∧ ∀ r ∈ out, ∃ p ∈ rs, p.1 ≤ r.1 ∧ r.2 ≤ p.2 := by
  induction rs with
  | nil =>
    intro f out hrs h
    simp only [splitStage, Option.some.injEq] at h
    subst h
    exact ⟨hrs, fun r hr => by cases hr⟩
  | cons r0 rs ih =>
    intro f out hrs h
    obtain ⟨s, e⟩ := r0
    simp only [splitStage, Option.bind_eq_bind, Option.bind_eq_some_iff, Option.pure_def,
      Option.some.injEq] at h
    obtain ⟨sub, hsub, rest, hrest, hout⟩ := h
    simp only [Ordered] at hrs
    obtain ⟨hfs, hse, hrs'⟩ := hrs
    have hel := ordered_le _ _ _ hrs'
    obtain ⟨ihO, ihR⟩ := ih e rest hrs' hrest
    have hsubO := split_ordered ext hs sp (slice text s e) sub hsub
    rw [slice_length text s e hel] at hsubO
    have hreb := ordered_rebase (e - s) s sub 0 hsubO
    have he : e - s + s = e := by omega
    rw [he, Nat.zero_add] at hreb
    subst hout
    refine ⟨ordered_append _ e _ _ f (ordered_mono e _ s f hfs hreb) ihO, ?_⟩
    intro r hr
    rcases List.mem_append.1 hr with hr | hr
    · obtain ⟨q, hq, rfl⟩ := List.mem_map.1 hr
      obtain ⟨a, b⟩ := q
      have := ordered_mem _ _ _ hsubO _ hq
      exact ⟨(s, e), List.mem_cons_self, by simp only; omega, by simp only at this ⊢; omega⟩
    · obtain ⟨p, hp, hpr⟩ := ihR r hr
      exact ⟨p, List.mem_cons_of_mem _ hp, hpr⟩

theorem stage_refines (ext : SplitExt) (hs : MatchesSane ext) (sp : Split) (text : Bytes) (rs out : Ranges)
    (hrs : Ordered text.length 0 rs) (h : splitStage ext sp text rs = some out) :
    Ordered text.length 0 out ∧ ∀ r ∈ out, ∃ p ∈ rs, p.1 ≤ r.1 ∧ r.2 ≤ p.2 :=
  stage_refines_from ext hs sp text rs 0 out hrs h

theorem splitChain_ordered (ext : SplitExt) (hs : MatchesSane ext) (text : Bytes) (sps : List Split) :
    ∀ (rs out : Ranges), Ordered text.length 0 rs → splitChain ext text sps rs = some out →
      Ordered text.length 0 out := by
  induction sps with
  | nil =>
    intro rs out hrs h
    simp only [splitChain, Option.some.injEq] at h
    subst h; exact hrs
  | cons sp sps ih =>
    intro rs out hrs h
    simp only [splitChain, Option.bind_eq_bind, Option.bind_eq_some_iff] at h
    obtain ⟨rs', h1, h2⟩ := h
    exact ih rs' out (stage_refines ext hs sp text rs rs' hrs h1).1 h2

theorem config_ordered (ext : SplitExt) (hs : MatchesSane ext) (splits : List Split) (text : Bytes)
    (out : Ranges) (h : configSplit ext splits text = some out) : Ordered text.length 0 out := by
  have hfull : Ordered text.length 0 [(0, text.length)] := by simp [Ordered]
  unfold configSplit at h
  split at h
  · simp only [Option.some.injEq] at h; subst h; simp [Ordered]
  · split at h
    · simp only [Option.some.injEq] at h; subst h; exact hfull
    · exact split_ordered ext hs _ text out h
    · exact splitChain_ordered ext hs text _ _ out hfull h

end Kitoken.Proofs.Split
