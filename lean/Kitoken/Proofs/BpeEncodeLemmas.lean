/-
  Helper lemmas for Kitoken/Theorems/EncBpe.lean: the BPE encoder with scratch buffer, emission loops,
  fallback recursion, strategy switch and shortcut equals the buffer-free specification; per-part
  composition for BPE and WordPiece; no-panic and spelling.
-/
import Kitoken.Proofs.BpeLemmas
import Kitoken.Proofs.WordPieceLemmas
import Kitoken.Proofs.Utf8Lemmas2
import Kitoken.Spec.Compose
namespace Kitoken.Proofs.BpeEncode

open Kitoken Kitoken.Bpe Kitoken.Spec Kitoken.Utf8

/-! ### WordPiece: per-part composition -/

theorem wordpiece_encodeParts (c : WpCtx) (parts : List TextPart) (res : List Id) :
    WordPiece.encodeParts c parts res =
      match seqRes (parts.map (perPart (WordPiece.encodeWord c))) with
      | .ok ids => .ok (res ++ ids)
      | .err e => .err e
      | .panic t => .panic t := by
  induction parts generalizing res with
  | nil => simp [WordPiece.encodeParts, seqRes]
  | cons p ps ih =>
    simp only [WordPiece.encodeParts, List.map_cons, seqRes, perPart]
    by_cases hp : (p.special != INVALID) = true
    · simp only [hp, if_true]
      rw [ih]
      cases seqRes (ps.map (perPart (WordPiece.encodeWord c))) <;> simp
    · simp only [hp]
      cases hw : WordPiece.encodeWord c p.text with
      | ok ids =>
        simp only [Bool.false_eq_true, if_false]
        rw [ih]
        cases seqRes (ps.map (perPart (WordPiece.encodeWord c))) <;> simp
      | err e => simp
      | panic t => simp

theorem wordpiece_encode_eq_flatMap (c : WpCtx) (parts : List TextPart) :
    WordPiece.encode c parts = seqRes (parts.map (perPart (WordPiece.encodeWord c))) := by
  unfold WordPiece.encode
  rw [wordpiece_encodeParts]
  cases seqRes (parts.map (perPart (WordPiece.encodeWord c))) <;> simp

/-! ### agreement between a model outcome (with scratch buffer) and a specification outcome -/

/-- The model outcome `m`, started on buffer `pre` and result `res`, agrees with the specification
    outcome `s`: tokens are appended, `pre` is kept as a prefix of the buffer, errors coincide, panics
    coincide up to the message. -/
def Agree (pre : List RankedPart) (res : List Id) (m : Res Scratch) (s : Res (List Id)) : Prop :=
  match s with
  | .ok ids => ∃ buf, m = .ok (buf, res ++ ids) ∧ buf.take pre.length = pre
  | .err e => m = .err e
  | .panic _ => ∃ q, m = .panic q

/-- Sequencing on the specification side. -/
def specSeq (s1 s2 : Res (List Id)) : Res (List Id) :=
  match s1 with
  | .ok ids =>
    match s2 with
    | .ok more => .ok (ids ++ more)
    | other => other
  | other => other

/-- Sequencing on the model side. -/
def modelSeq (m1 : Res Scratch) (k : List RankedPart → List Id → Res Scratch) : Res Scratch :=
  match m1 with
  | .ok (b, r) => k b r
  | .err e => .err e
  | .panic p => .panic p

theorem take_of_take {α} (b b' pre : List α) (n : Nat) (hn : pre.length ≤ n)
    (h1 : b'.take n = b) (h2 : b.take pre.length = pre) : b'.take pre.length = pre := by
  subst h1
  rw [List.take_take, Nat.min_eq_left hn] at h2
  exact h2

theorem agree_seq (pre : List RankedPart) (res : List Id) (m1 : Res Scratch) (s1 s2 : Res (List Id))
    (k : List RankedPart → List Id → Res Scratch)
    (h1 : Agree pre res m1 s1)
    (h2 : ∀ b ids, b.take pre.length = pre → s1 = .ok ids → Agree b (res ++ ids) (k b (res ++ ids)) s2) :
    Agree pre res (modelSeq m1 k) (specSeq s1 s2) := by
  cases s1 with
  | ok ids =>
    obtain ⟨b, hm, hb⟩ := h1
    subst hm
    have := h2 b ids hb rfl
    simp only [modelSeq, specSeq]
    cases s2 with
    | ok more =>
      obtain ⟨b', hm', hb'⟩ := this
      refine ⟨b', ?_, ?_⟩
      · rw [hm', List.append_assoc]
      · have hl : pre.length ≤ b.length := by
          have := congrArg List.length hb
          simp only [List.length_take] at this
          omega
        exact take_of_take b b' pre b.length hl hb' hb
    | err e => exact this
    | panic t => exact this
  | err e => simp only [Agree] at h1; subst h1; simp [modelSeq, specSeq, Agree]
  | panic t =>
    obtain ⟨q, hq⟩ := h1
    subst hq
    exact ⟨q, rfl⟩

theorem agree_weaken (pre parts : List RankedPart) (res : List Id) (m : Res Scratch) (s : Res (List Id))
    (h : Agree (pre ++ parts) res m s) : Agree pre res m s := by
  cases s with
  | ok ids =>
    obtain ⟨b, hm, hb⟩ := h
    refine ⟨b, hm, ?_⟩
    have := congrArg (List.take pre.length) hb
    rw [List.take_take, List.take_left' rfl, Nat.min_eq_left (by simp)] at this
    exact this
  | err e => exact h
  | panic t => exact h

/-! ### the two emission loops against `emitSegments` -/

/-- The byte-level recursion of the model agrees with that of the specification. -/
def RecRel (r : PairsFn) (s : Bool → List Bytes → Res (List Id)) : Prop :=
  ∀ seg buffer result k sfx, k ≤ seg.length →
    Agree buffer result (r seg buffer result (List.range k) sfx)
      (s sfx (segsOfStarts seg (List.range k ++ [seg.length])))

def OptRel : Option PairsFn → Option (Bool → List Bytes → Res (List Id)) → Prop
  | none, none => True
  | some r, some s => RecRel r s
  | _, _ => False

theorem fallbackNoBytes_eq (c : BpeCtx) (fb : List Fallback) (seg : Bytes) :
    fallbackNoBytes c fb seg = fallbackLeaf c.unknown fb seg := by
  unfold fallbackNoBytes fallbackLeaf
  cases fb with
  | nil => simp
  | cons f t => cases f <;> cases c.unknown <;> simp

theorem eowLen_eq (eow : Option Bytes) (sfx : Bool) :
    (match eow with | some e => if sfx = true then e.length else 0 | none => 0) =
      (if sfx = true then (match eow with | some e => e.length | none => 0) else 0) := by
  cases eow <;> cases sfx <;> simp

/-- One step of either emission loop, in sequencing form. -/
def stepModel (msg : String) (c : BpeCtx) (fb : List Fallback) (byteRec : Option PairsFn) (seg : Bytes) (sfx : Bool)
    (buffer : List RankedPart) (result : List Id) : Res Scratch :=
  match c.tok seg with
  | some t => .ok (buffer, result ++ [t])
  | none =>
    match byteRec with
    | some rec =>
      let eowLen := match c.eow with | some e => if sfx then e.length else 0 | none => 0
      if eowLen > seg.length then .panic msg
      else rec seg buffer result (List.range (seg.length - eowLen)) sfx
    | none =>
      match fallbackNoBytes c fb seg with
      | .ok ids => .ok (buffer, result ++ ids)
      | .err e => .err e
      | .panic p => .panic p

def stepSpec (c : BpeCtx) (fb : List Fallback) (byteRec : Option (Bool → List Bytes → Res (List Id)))
    (seg : Bytes) (sfx : Bool) : Res (List Id) :=
  match c.tok seg with
  | some t => .ok [t]
  | none =>
    match byteRec with
    | some rec =>
      let e := if sfx then (match c.eow with | some e => e.length | none => 0) else 0
      if e > seg.length then .panic "suffix longer than segment"
      else rec sfx (segsOfStarts seg (List.range (seg.length - e) ++ [seg.length]))
    | none => fallbackLeaf c.unknown fb seg

theorem emitSegments_cons (c : BpeCtx) (fb : List Fallback) (srec) (suffixed : Bool) (seg : Bytes)
    (rest : List Bytes) :
    emitSegments c fb srec suffixed (seg :: rest) =
      specSeq (stepSpec c fb srec seg (suffixed && rest.isEmpty)) (emitSegments c fb srec suffixed rest) := by
  rfl

theorem step_agree (msg : String) (c : BpeCtx) (fb : List Fallback) (rec srec) (h : OptRel rec srec) (seg : Bytes)
    (sfx : Bool) (buffer : List RankedPart) (result : List Id) :
    Agree buffer result (stepModel msg c fb rec seg sfx buffer result) (stepSpec c fb srec seg sfx) := by
  unfold stepModel stepSpec
  cases c.tok seg with
  | some t => exact ⟨buffer, rfl, by simp⟩
  | none =>
    match rec, srec, h with
    | none, none, _ =>
      simp only [fallbackNoBytes_eq]
      cases fallbackLeaf c.unknown fb seg with
      | ok ids => exact ⟨buffer, rfl, by simp⟩
      | err e => exact rfl
      | panic t => exact ⟨t, rfl⟩
    | some r, some s, h =>
      simp only [eowLen_eq]
      generalize (if sfx = true then (match c.eow with | some e => e.length | none => 0) else 0) = e
      by_cases he : e > seg.length
      · simp only [he, if_true]
        exact ⟨_, rfl⟩
      · simp only [he, if_false]
        exact h seg buffer result _ sfx (by omega)

theorem seq_ite (cond : Prop) [Decidable cond] (msg : String) (x : Res Scratch)
    (k : List RankedPart → List Id → Res Scratch) :
    (if cond then Res.panic msg else
      (match x with | .ok (b, r) => k b r | .err e => .err e | .panic p => .panic p)) =
      modelSeq (if cond then .panic msg else x) k := by
  by_cases h : cond <;> simp [modelSeq, h]

theorem emitHeap_cons (c : BpeCtx) (fb : List Fallback) (rec) (piece : Bytes) (suffixed : Bool)
    (part : LinkedPart) (rest : List LinkedPart) (buffer : List RankedPart) (result : List Id) :
    emitHeap c fb rec piece suffixed (part :: rest) buffer result =
      modelSeq (stepModel "encode_pairs_heap: piece.len() - end_of_word.len()" c fb rec
          (slice piece part.start (part.start + part.width))
          (suffixed && rest.isEmpty) buffer result)
        (fun b r => emitHeap c fb rec piece suffixed rest b r) := by
  simp only [emitHeap, stepModel]
  cases c.tok (slice piece part.start (part.start + part.width)) with
  | some t => rfl
  | none =>
    cases rec with
    | some r => exact seq_ite _ _ _ _
    | none =>
      simp only []
      cases fallbackNoBytes c fb (slice piece part.start (part.start + part.width)) <;> rfl

theorem emitHeap_agree (c : BpeCtx) (fb : List Fallback) (rec srec) (h : OptRel rec srec) (piece : Bytes)
    (suffixed : Bool) : ∀ (nodes : List LinkedPart) (buffer : List RankedPart) (result : List Id),
    Agree buffer result (emitHeap c fb rec piece suffixed nodes buffer result)
      (emitSegments c fb srec suffixed (nodes.map fun n => slice piece n.start (n.start + n.width))) := by
  intro nodes
  induction nodes with
  | nil => intro buffer result; exact ⟨buffer, by simp [emitHeap], by simp⟩
  | cons part rest ih =>
    intro buffer result
    rw [List.map_cons, emitSegments_cons, emitHeap_cons]
    apply agree_seq
    · have : (rest.map fun n => slice piece n.start (n.start + n.width)).isEmpty = rest.isEmpty := by
        cases rest <;> rfl
      rw [this]
      exact step_agree _ c fb rec srec h _ _ buffer result
    · intro b ids _ _
      exact ih b (result ++ ids)

/-- The segments `segs` are what the emission loop reads from `buffer` at indices `i, i + 1, …`. -/
def SegsAt (piece : Bytes) (buffer : List RankedPart) : Nat → List Bytes → Prop
  | _, [] => True
  | i, seg :: rest =>
    i + 1 < buffer.length ∧
    slice piece (buffer.getD i default).start (buffer.getD (i + 1) default).start = seg ∧
    SegsAt piece buffer (i + 1) rest

theorem getD_of_take (b b' : List RankedPart) (h : b'.take b.length = b) (j : Nat) (hj : j < b.length) :
    b'.getD j default = b.getD j default := by
  have : b[j]? = b'[j]? := by
    conv => lhs; rw [← h]
    rw [List.getElem?_take]
    simp [hj]
  simp only [List.getD_eq_getElem?_getD, this]

theorem SegsAt_mono (piece : Bytes) (b b' : List RankedPart) (h : b'.take b.length = b) :
    ∀ segs i, SegsAt piece b i segs → SegsAt piece b' i segs := by
  intro segs
  induction segs with
  | nil => intro i _; trivial
  | cons seg rest ih =>
    intro i hs
    obtain ⟨h1, h2, h3⟩ := hs
    have hl : b.length ≤ b'.length := by
      have := congrArg List.length h
      simp only [List.length_take] at this
      omega
    refine ⟨by omega, ?_, ih _ h3⟩
    rw [getD_of_take b b' h i (by omega), getD_of_take b b' h (i + 1) h1]
    exact h2

theorem SegsAt_append (piece : Bytes) : ∀ (parts pre : List RankedPart),
    SegsAt piece (pre ++ parts) pre.length (segsOfStarts piece (parts.map (·.start)))
  | [], _ => trivial
  | [_], _ => trivial
  | a :: b :: rest, pre => by
    have ih := SegsAt_append piece (b :: rest) (pre ++ [a])
    simp only [List.map_cons, segsOfStarts]
    refine ⟨by simp, ?_, ?_⟩
    · have e1 : (pre ++ a :: b :: rest).getD pre.length default = a := by
        simp [List.getD_eq_getElem?_getD]
      have e2 : (pre ++ a :: b :: rest).getD (pre.length + 1) default = b := by
        simp [List.getD_eq_getElem?_getD]
      rw [e1, e2]
    · simpa using ih

theorem emitLinear_cons (c : BpeCtx) (fb : List Fallback) (rec) (piece : Bytes) (suffixed : Bool)
    (stop i : Nat) (is : List Nat) (buffer : List RankedPart) (result : List Id) :
    emitLinear c fb rec piece suffixed stop (i :: is) buffer result =
      modelSeq (stepModel "encode_pairs: piece.len() - end_of_word.len()" c fb rec
          (slice piece (buffer.getD i default).start (buffer.getD (i + 1) default).start)
          (suffixed && (i + 1 == stop)) buffer result)
        (fun b r => emitLinear c fb rec piece suffixed stop is b r) := by
  simp only [emitLinear, stepModel]
  cases c.tok (slice piece (buffer.getD i default).start (buffer.getD (i + 1) default).start) with
  | some t => rfl
  | none =>
    cases rec with
    | some r => exact seq_ite _ _ _ _
    | none =>
      simp only []
      cases fallbackNoBytes c fb
        (slice piece (buffer.getD i default).start (buffer.getD (i + 1) default).start) <;> rfl

theorem emitLinear_agree (c : BpeCtx) (fb : List Fallback) (rec srec) (h : OptRel rec srec) (piece : Bytes)
    (suffixed : Bool) : ∀ (segs : List Bytes) (i : Nat) (buffer : List RankedPart) (result : List Id),
    SegsAt piece buffer i segs →
    Agree buffer result
      (emitLinear c fb rec piece suffixed (i + segs.length) (List.range' i segs.length) buffer result)
      (emitSegments c fb srec suffixed segs) := by
  intro segs
  induction segs with
  | nil => intro i buffer result _; exact ⟨buffer, by simp [emitLinear], by simp⟩
  | cons seg rest ih =>
    intro i buffer result hs
    obtain ⟨h1, h2, h3⟩ := hs
    rw [List.length_cons, List.range'_succ, emitSegments_cons, emitLinear_cons, h2]
    apply agree_seq
    · have : (i + 1 == i + (rest.length + 1)) = rest.isEmpty := by
        cases rest <;> simp
      rw [this]
      exact step_agree _ c fb rec srec h _ _ buffer result
    · intro b ids hb _
      have e : i + (rest.length + 1) = (i + 1) + rest.length := by omega
      rw [e]
      have hb' : b.take buffer.length = buffer := by simpa using hb
      exact ih (i + 1) b (result ++ ids) (SegsAt_mono piece buffer b hb' rest (i + 1) h3)

theorem segsOfStarts_length (piece : Bytes) : ∀ l, (segsOfStarts piece l).length = l.length - 1
  | [] => rfl
  | [_] => rfl
  | _ :: b :: rest => by simp [segsOfStarts, segsOfStarts_length piece (b :: rest)]

theorem Boundaries_range' (n : Nat) : ∀ (k s : Nat), s + k ≤ n → Boundaries n (List.range' s k ++ [n])
  | 0, _, _ => by simp [Boundaries]
  | 1, s, h => by simp [List.range', Boundaries]; omega
  | k + 2, s, h => by
    have ih := Boundaries_range' n (k + 1) (s + 1) (by omega)
    simp only [List.range'_succ, List.cons_append, Boundaries] at ih ⊢
    exact ⟨by omega, ih⟩

theorem Boundaries_range (n k : Nat) (h : k ≤ n) : Boundaries n (List.range k ++ [n]) := by
  rw [List.range_eq_range']
  exact Boundaries_range' n k 0 (by omega)

theorem encodePairsBody_agree (c : BpeCtx) (hr : ∀ b, rankOf c b ≤ MAXR) (fb : List Fallback) (rec srec)
    (h : OptRel rec srec) (piece : Bytes) (pre : List RankedPart) (res : List Id) (indices : List Nat)
    (suffixed : Bool) (hb : Boundaries piece.length (indices ++ [piece.length])) :
    Agree pre res (encodePairsBody c fb rec piece pre res indices suffixed)
      (emitSegments c fb srec suffixed (bpeSpec (rankOf c) (segsOfStarts piece (indices ++ [piece.length])))) := by
  obtain ⟨parts, h1, h2⟩ := Bpe.linear_eq_spec_partial c piece pre _ hr hb
  have hbuf : pre ++ indices.map (fun i => ({ start := i, rank := MAXR } : RankedPart)) ++
      [{ start := piece.length, rank := MAXR }] =
      pre ++ (indices ++ [piece.length]).map fun s => ({ start := s, rank := MAXR } : RankedPart) := by
    simp
  unfold encodePairsBody
  simp only []
  rw [hbuf, h1, ← h2]
  apply agree_weaken pre parts
  have hlen := segsOfStarts_length piece (parts.map (·.start))
  rw [List.length_map] at hlen
  cases parts with
  | nil =>
    simp only [List.append_nil, List.map_nil, segsOfStarts]
    have : pre.length - 1 - pre.length = 0 := by omega
    rw [this]
    exact ⟨pre, by simp [emitLinear], by simp⟩
  | cons p ps =>
    have e1 : (pre ++ p :: ps).length - 1 - pre.length = (segsOfStarts piece ((p :: ps).map (·.start))).length := by
      rw [hlen]; simp
    have e2 : (pre ++ p :: ps).length - 1 = pre.length + (segsOfStarts piece ((p :: ps).map (·.start))).length := by
      rw [hlen]; simp
    rw [e1, e2]
    exact emitLinear_agree c fb rec srec h piece suffixed _ _ _ res (SegsAt_append piece (p :: ps) pre)

theorem encodePairs_agree (c : BpeCtx) (hr : ∀ b, rankOf c b ≤ MAXR) : ∀ (fb : List Fallback) (piece : Bytes)
    (pre : List RankedPart) (res : List Id) (indices : List Nat) (suffixed : Bool),
    Boundaries piece.length (indices ++ [piece.length]) →
    Agree pre res (encodePairs c fb piece pre res indices suffixed)
      (bpeSegments c fb suffixed (segsOfStarts piece (indices ++ [piece.length])))
  | [], piece, pre, res, indices, suffixed, hb => by
    rw [encodePairs, bpeSegments]
    exact encodePairsBody_agree c hr [] none none trivial piece pre res indices suffixed hb
  | .unknown :: tail, piece, pre, res, indices, suffixed, hb => by
    rw [encodePairs, bpeSegments]
    exact encodePairsBody_agree c hr _ none none trivial piece pre res indices suffixed hb
  | .skip :: tail, piece, pre, res, indices, suffixed, hb => by
    rw [encodePairs, bpeSegments]
    exact encodePairsBody_agree c hr _ none none trivial piece pre res indices suffixed hb
  | .bytes :: tail, piece, pre, res, indices, suffixed, hb => by
    rw [encodePairs, bpeSegments]
    refine encodePairsBody_agree c hr _ (some (encodePairs c tail)) (some (bpeSegments c tail)) ?_
      piece pre res indices suffixed hb
    intro seg buffer result k sfx hk
    exact encodePairs_agree c hr tail seg buffer result (List.range k) sfx (Boundaries_range _ _ hk)

theorem agree_iff (pre : List RankedPart) (res : List Id) (m : Res Scratch) (s : Res (List Id)) :
    Agree pre res m s ↔
      (match s with
       | .ok ids => ∃ buf, m = .ok (buf, res ++ ids) ∧ buf.take pre.length = pre
       | .err e => m = .err e
       | .panic _ => ∃ q, m = .panic q) := by
  cases s <;> exact Iff.rfl

theorem encodePairs_eq_spec (c : BpeCtx) (hr : ∀ b, rankOf c b ≤ MAXR) (fb : List Fallback) (piece : Bytes)
    (pre : List RankedPart) (res : List Id) (indices : List Nat) (suffixed : Bool)
    (hb : Boundaries piece.length (indices ++ [piece.length])) :
    match bpeSegments c fb suffixed (segsOfStarts piece (indices ++ [piece.length])) with
    | .ok ids => ∃ buf, encodePairs c fb piece pre res indices suffixed = .ok (buf, res ++ ids) ∧
                   buf.take pre.length = pre
    | .err e => encodePairs c fb piece pre res indices suffixed = .err e
    | .panic _ => ∃ q, encodePairs c fb piece pre res indices suffixed = .panic q :=
  (agree_iff _ _ _ _).1 (encodePairs_agree c hr fb piece pre res indices suffixed hb)

theorem encodePairsHeap_agree (c : BpeCtx) (hr : ∀ b, rankOf c b ≤ MAXR) (fb : List Fallback) (piece : Bytes)
    (pre : List RankedPart) (res : List Id) (us : List (Nat × Nat)) (suffixed : Bool)
    (hu : UnitsWF piece.length us) :
    Agree pre res (encodePairsHeap c fb piece pre res us suffixed)
      (bpeSegments c fb suffixed (segsOfStarts piece (unitStarts piece.length us))) := by
  unfold encodePairsHeap
  simp only []
  have hh := Bpe.heap_eq_spec_partial c piece us hr hu
  match fb with
  | [] => rw [bpeSegments, ← hh]; exact emitHeap_agree c _ none none trivial piece suffixed _ pre res
  | .unknown :: tail => rw [bpeSegments, ← hh]; exact emitHeap_agree c _ none none trivial piece suffixed _ pre res
  | .skip :: tail => rw [bpeSegments, ← hh]; exact emitHeap_agree c _ none none trivial piece suffixed _ pre res
  | .bytes :: tail =>
    rw [bpeSegments, ← hh]
    refine emitHeap_agree c _ (some (encodePairs c tail)) (some (bpeSegments c tail)) ?_ piece suffixed _ pre res
    intro seg buffer result k sfx hk
    exact encodePairs_agree c hr tail seg buffer result (List.range k) sfx (Boundaries_range _ _ hk)

theorem encodePairsHeap_eq_spec (c : BpeCtx) (hr : ∀ b, rankOf c b ≤ MAXR) (fb : List Fallback) (piece : Bytes)
    (pre : List RankedPart) (res : List Id) (us : List (Nat × Nat)) (suffixed : Bool)
    (hu : UnitsWF piece.length us) :
    match bpeSegments c fb suffixed (segsOfStarts piece (unitStarts piece.length us)) with
    | .ok ids => ∃ buf, encodePairsHeap c fb piece pre res us suffixed = .ok (buf, res ++ ids) ∧
                   buf.take pre.length = pre
    | .err e => encodePairsHeap c fb piece pre res us suffixed = .err e
    | .panic _ => ∃ q, encodePairsHeap c fb piece pre res us suffixed = .panic q :=
  (agree_iff _ _ _ _).1 (encodePairsHeap_agree c hr fb piece pre res us suffixed hu)

/-! ### spelling (no fallback fired) -/

theorem emitSegments_spelling (c : BpeCtx) (inv : Id → Option Bytes)
    (hinv : ∀ b t, c.tok b = some t → inv t = some b) (fb : List Fallback) (srec) (suffixed : Bool) :
    ∀ (segs : List Bytes) (ids : List Id), (∀ seg ∈ segs, (c.tok seg).isSome) →
      emitSegments c fb srec suffixed segs = .ok ids →
      (ids.map fun t => (inv t).getD []).flatten = segs.flatten := by
  intro segs
  induction segs with
  | nil =>
    intro ids _ h
    simp only [emitSegments, Res.ok.injEq] at h
    subst h
    rfl
  | cons seg rest ih =>
    intro ids hall h
    rw [emitSegments_cons] at h
    have hs := hall seg (by simp)
    obtain ⟨t, ht⟩ := Option.isSome_iff_exists.mp hs
    simp only [stepSpec, ht, specSeq] at h
    cases hr : emitSegments c fb srec suffixed rest with
    | ok more =>
      rw [hr] at h
      simp only [Res.ok.injEq] at h
      subst h
      have := ih more (fun s hs => hall s (by simp [hs])) hr
      simp only [List.singleton_append, List.map_cons, List.flatten_cons, this, hinv seg t ht,
        Option.getD_some]
    | err e => rw [hr] at h; simp at h
    | panic q => rw [hr] at h; simp at h

theorem bpe_spelling (c : BpeCtx) (inv : Id → Option Bytes) (hinv : ∀ b t, c.tok b = some t → inv t = some b)
    (fb : List Fallback) (suffixed : Bool) (units : List Bytes) (ids : List Id)
    (hall : ∀ seg ∈ bpeSpec (rankOf c) units, (c.tok seg).isSome)
    (h : bpeSegments c fb suffixed units = .ok ids) :
    (ids.map fun t => (inv t).getD []).flatten = units.flatten := by
  rw [← (Bpe.spec_fixpoint (rankOf c) units).2]
  match fb, h with
  | [], h => rw [bpeSegments] at h; exact emitSegments_spelling c inv hinv _ _ suffixed _ ids hall h
  | .unknown :: _, h => rw [bpeSegments] at h; exact emitSegments_spelling c inv hinv _ _ suffixed _ ids hall h
  | .skip :: _, h => rw [bpeSegments] at h; exact emitSegments_spelling c inv hinv _ _ suffixed _ ids hall h
  | .bytes :: _, h => rw [bpeSegments] at h; exact emitSegments_spelling c inv hinv _ _ suffixed _ ids hall h

/-! ### units of one part -/

/-- The last unit owns the end-of-word suffix: its width is extended by `e`. -/
def extLast (e : Nat) : List (Nat × Nat) → List (Nat × Nat)
  | [] => []
  | [(s, w)] => [(s, w + e)]
  | u :: v :: r => u :: extLast e (v :: r)

theorem extLast_eq (e : Nat) (units : List (Nat × Nat)) :
    (match units.getLast? with
      | some (s, w) => units.dropLast ++ [(s, w + e)]
      | none => units) = extLast e units := by
  fun_induction extLast e units with
  | case1 => rfl
  | case2 s w => rfl
  | case3 u v r ih =>
    rw [← ih]
    simp only [List.getLast?_cons_cons, List.dropLast_cons_cons]
    cases (v :: r).getLast? <;> rfl

theorem extLast_map_fst (e : Nat) (units : List (Nat × Nat)) :
    (extLast e units).map (·.1) = units.map (·.1) := by
  fun_induction extLast e units <;> simp_all

theorem extLast_length (e : Nat) (units : List (Nat × Nat)) : (extLast e units).length = units.length := by
  fun_induction extLast e units <;> simp_all

theorem extLast_cons (e : Nat) (u : Nat × Nat) (l : List (Nat × Nat)) (h : l ≠ []) :
    extLast e (u :: l) = u :: extLast e l := by
  cases l with
  | nil => exact absurd rfl h
  | cons v r => rfl

/-- Byte-mode heap units. -/
theorem UnitsWF_bytes (e t : Nat) : ∀ (k s : Nat), t = s + k → 0 < k →
    UnitsWF (t + e) ((List.range' s k).map fun i => (i, if (i + 1 == t) = true then 1 + e else 1))
  | 0, _, _, h => by omega
  | 1, s, ht, _ => by
    subst ht
    simp [List.range', UnitsWF]
    omega
  | k + 2, s, ht, _ => by
    have ih := UnitsWF_bytes e t (k + 1) (s + 1) (by omega) (by omega)
    simp only [List.range'_succ, List.map_cons, UnitsWF] at ih ⊢
    refine ⟨?_, ?_, ih⟩
    · split <;> omega
    · have : (s + 1 == t) = false := by simp; omega
      simp [this]

theorem range'_map_fst (f : Nat → Nat) (s k : Nat) :
    ((List.range' s k).map fun i => (i, f i)).map (·.1) = List.range' s k := by
  simp [Function.comp_def]

/-- Character spans to boundaries. -/
theorem Boundaries_of_chain (len L : Nat) (hL : len ≤ L) : ∀ (l : List (Nat × Nat)) (p : Nat),
    WordPiece.Chain len p l → l ≠ [] → Boundaries L (l.map (·.1) ++ [L])
  | [], _, _, h => absurd rfl h
  | [(s, e)], p, hc, _ => by
    obtain ⟨_, h2, h3⟩ := hc
    simp only [WordPiece.Chain] at h3
    simp only [List.map_cons, List.map_nil, List.cons_append, List.nil_append, Boundaries]
    exact ⟨by omega, trivial⟩
  | (s, e) :: (s', e') :: rest, p, hc, _ => by
    obtain ⟨_, h2, h3⟩ := hc
    have ih := Boundaries_of_chain len L hL ((s', e') :: rest) e h3 (by simp)
    have : s' = e := h3.1
    simp only [List.map_cons, List.cons_append, Boundaries] at ih ⊢
    exact ⟨by omega, ih⟩

theorem charIndices_ne_nil (text : Bytes) (h : text ≠ []) : charIndices text ≠ [] := by
  cases text with
  | nil => exact absurd rfl h
  | cons b t => unfold charIndices; rw [charIndicesFrom_cons]; simp

theorem Boundaries_charStarts (text : Bytes) (h : text ≠ []) (L : Nat) (hL : text.length ≤ L) :
    Boundaries L (charStarts text ++ [L]) := by
  have hc := WordPiece.chain_charIndicesFrom 0 text
  rw [Nat.zero_add] at hc
  have hne := charIndices_ne_nil text h
  unfold charIndices at hne
  have := Boundaries_of_chain text.length L hL _ 0 hc (by simpa using hne)
  simpa [charStarts, WordPiece.spanOf, charIndices, Function.comp_def] using this

/-- Declared character units `(start, len_utf8)`. -/
def charUnits (cis : List (Nat × Nat × Char)) : List (Nat × Nat) :=
  cis.map fun (s, _, ch) => (s, ch.utf8Size)

theorem charUnits_map_fst (cis : List (Nat × Nat × Char)) : (charUnits cis).map (·.1) = cis.map (·.1) := by
  simp [charUnits]

theorem UnitsWF_cons (len s w : Nat) (us : List (Nat × Nat)) (hw : 0 < w)
    (hh : (us.map (·.1)).head? = some (s + w)) (hu : UnitsWF len us) : UnitsWF len ((s, w) :: us) := by
  match us, hh, hu with
  | (s', w') :: r, hh, hu =>
    simp only [List.map_cons, List.head?_cons, Option.some.injEq] at hh
    exact ⟨hw, hh.symm, hu⟩

theorem UnitsWF_chars (e : Nat) : ∀ (cs : List Char) (pos : Nat), cs ≠ [] →
    UnitsWF (pos + (encodeChars cs).length + e) (extLast e (charUnits (charIndicesFrom pos (encodeChars cs))))
  | [], _, h => absurd rfl h
  | [c], pos, _ => by
    rw [charIndices_encodeChars_cons]
    have : encodeChars [] = [] := rfl
    rw [this, charIndicesFrom_nil, encodeChars_singleton, encodeChar_length]
    simp only [charUnits, List.map_cons, List.map_nil, extLast, UnitsWF]
    have := c.utf8Size_pos
    omega
  | c :: c' :: rest, pos, _ => by
    have ih := UnitsWF_chars e (c' :: rest) (pos + c.utf8Size) (by simp)
    rw [charIndices_encodeChars_cons]
    have hne : charUnits (charIndicesFrom (pos + c.utf8Size) (encodeChars (c' :: rest))) ≠ [] := by
      rw [charIndices_encodeChars_cons]; simp [charUnits]
    have hl : pos + (encodeChars (c :: c' :: rest)).length + e =
        pos + c.utf8Size + (encodeChars (c' :: rest)).length + e := by
      rw [encodeChars_cons c, List.length_append, encodeChar_length]; omega
    rw [hl]
    have hcu : charUnits ((pos, pos + c.utf8Size, c) :: charIndicesFrom (pos + c.utf8Size) (encodeChars (c' :: rest)))
        = (pos, c.utf8Size) :: charUnits (charIndicesFrom (pos + c.utf8Size) (encodeChars (c' :: rest))) := rfl
    rw [hcu, extLast_cons e _ _ hne]
    refine UnitsWF_cons _ _ _ _ c.utf8Size_pos ?_ ih
    rw [extLast_map_fst, charUnits_map_fst, charIndices_encodeChars_cons]
    rfl

/-! ### one part -/

theorem eowLen_eq_getD (c : BpeCtx) : eowLen c = (c.eow.getD []).length := by
  unfold eowLen; cases c.eow <;> rfl

/-- `buffer.clear()` after `encode_bytes`. -/
def clearBuf (r : Res Scratch) : Res Scratch :=
  match r with
  | .ok (_, result') => .ok ([], result')
  | other => other

theorem encodePart_none (c : BpeCtx) (part : Bytes) (buffer : List RankedPart) (result : List Id)
    (hs : c.tok part = none) (he : ¬ eowLen c > part.length) :
    encodePart c part buffer result =
      if c.chars = true then
        (if useHeap (extLast (eowLen c) (charUnits (charIndices (part.take (part.length - eowLen c))))).length = true then
          encodePairsHeap c c.fallback part buffer result
            (extLast (eowLen c) (charUnits (charIndices (part.take (part.length - eowLen c))))) c.eow.isSome
        else
          encodePairs c c.fallback part buffer result
            ((extLast (eowLen c) (charUnits (charIndices (part.take (part.length - eowLen c))))).map (·.1))
            c.eow.isSome)
      else
        clearBuf
          (if useHeap part.length = true then
            encodePairsHeap c c.fallback part buffer result
              ((List.range (part.length - eowLen c)).map fun i =>
                (i, if (i + 1 == part.length - eowLen c) = true then 1 + eowLen c else 1)) c.eow.isSome
          else encodePairs c c.fallback part buffer result (List.range (part.length - eowLen c)) c.eow.isSome) := by
  have hsc : (if part.length ≤ c.maxTok ∧ part.length ≥ c.minTok then c.tok part else none) = none := by
    split <;> simp [hs]
  unfold encodePart
  simp only [hsc, he, if_false]
  rw [← extLast_eq]
  rfl

theorem bpePieceSpec_none (c : BpeCtx) (text : Bytes) (hs : c.tok (text ++ c.eow.getD []) = none) :
    bpePieceSpec c text =
      bpeSegments c c.fallback c.eow.isSome
        (segsOfStarts (text ++ c.eow.getD [])
          ((if c.chars = true then charStarts text else List.range text.length) ++
            [(text ++ c.eow.getD []).length])) := by
  unfold bpePieceSpec bpeUnits
  simp only [hs]
  have h1 : (text ++ c.eow.getD []).length - (c.eow.getD []).length = text.length := by simp
  rw [h1, List.take_left' rfl]

/-- Agreement without the buffer-prefix clause. -/
def AgreeW (res : List Id) (m : Res Scratch) (s : Res (List Id)) : Prop :=
  match s with
  | .ok ids => ∃ buf, m = .ok (buf, res ++ ids)
  | .err e => m = .err e
  | .panic _ => ∃ q, m = .panic q

theorem agree_toW (pre : List RankedPart) (res : List Id) (m : Res Scratch) (s : Res (List Id))
    (h : Agree pre res m s) : AgreeW res m s := by
  cases s with
  | ok ids => obtain ⟨b, hm, _⟩ := h; exact ⟨b, hm⟩
  | err e => exact h
  | panic t => exact h

theorem agreeW_clear (res : List Id) (m : Res Scratch) (s : Res (List Id)) (h : AgreeW res m s) :
    AgreeW res (clearBuf m) s := by
  cases s with
  | ok ids => obtain ⟨b, hm⟩ := h; subst hm; exact ⟨[], rfl⟩
  | err e => simp only [AgreeW] at h; subst h; rfl
  | panic t => obtain ⟨q, hq⟩ := h; subst hq; exact ⟨q, rfl⟩

theorem agreeW_iff (res : List Id) (m : Res Scratch) (s : Res (List Id)) :
    AgreeW res m s ↔
      (match s with
       | .ok ids => ∃ buf, m = .ok (buf, res ++ ids)
       | .err e => m = .err e
       | .panic _ => ∃ q, m = .panic q) := by
  cases s <;> exact Iff.rfl

/-- One part against `bpePieceSpec`. In character mode with the heap strategy the text must be valid
    UTF-8 (the declared unit widths `len_utf8` are otherwise not the consumed widths). -/
theorem encodePart_agree (c : BpeCtx) (hw : BpeWF c) (text : Bytes) (htext : text ≠ [])
    (hv : c.chars = true → useHeap (charIndices text).length = true → validUtf8 text = true)
    (buffer : List RankedPart) (res : List Id) :
    AgreeW res (encodePart c (text ++ c.eow.getD []) buffer res) (bpePieceSpec c text) := by
  cases htok : c.tok (text ++ c.eow.getD []) with
  | some t =>
    rw [Bpe.shortcut c _ t buffer res hw.keys_bounded htok]
    unfold bpePieceSpec
    simp only [htok]
    exact ⟨buffer, rfl⟩
  | none =>
    have hlen : (text ++ c.eow.getD []).length = text.length + eowLen c := by
      rw [eowLen_eq_getD, List.length_append]
    have hbody : (text ++ c.eow.getD []).length - eowLen c = text.length := by omega
    have htake : (text ++ c.eow.getD []).take text.length = text := List.take_left' rfl
    have hpos : 0 < text.length := List.length_pos_iff.mpr htext
    rw [encodePart_none c _ buffer res htok (by omega), bpePieceSpec_none c text htok, hbody, htake]
    by_cases hc : c.chars = true
    · simp only [hc, if_true]
      have hfst : (extLast (eowLen c) (charUnits (charIndices text))).map (·.1) = charStarts text := by
        rw [extLast_map_fst, charUnits_map_fst]; rfl
      by_cases hh : useHeap (extLast (eowLen c) (charUnits (charIndices text))).length = true
      · simp only [hh, if_true]
        have hvalid : validUtf8 text = true := by
          apply hv hc
          rw [extLast_length] at hh
          simpa [charUnits] using hh
        obtain ⟨cs, hcs⟩ := exists_chars_of_validUtf8 text hvalid
        have hcsne : cs ≠ [] := by
          intro h; subst h; exact htext hcs
        have hu := UnitsWF_chars (eowLen c) cs 0 hcsne
        rw [← hcs, Nat.zero_add, ← hlen] at hu
        have := encodePairsHeap_agree c hw.ranks_u32 c.fallback _ buffer res _ c.eow.isSome hu
        unfold unitStarts at this
        rw [← hfst]
        exact agree_toW _ _ _ _ this
      · simp only [hh]
        rw [hfst]
        exact agree_toW _ _ _ _ (encodePairs_agree c hw.ranks_u32 c.fallback _ buffer res _ c.eow.isSome
          (Boundaries_charStarts text htext _ (by omega)))
    · simp only [hc]
      apply agreeW_clear
      by_cases hh : useHeap (text ++ c.eow.getD []).length = true
      · simp only [hh, if_true]
        have hu := UnitsWF_bytes (eowLen c) text.length text.length 0 (by omega) hpos
        rw [← List.range_eq_range', ← hlen] at hu
        have := encodePairsHeap_agree c hw.ranks_u32 c.fallback _ buffer res _ c.eow.isSome hu
        unfold unitStarts at this
        rw [List.range_eq_range', range'_map_fst, ← List.range_eq_range'] at this
        exact agree_toW _ _ _ _ this
      · simp only [hh]
        exact agree_toW _ _ _ _ (encodePairs_agree c hw.ranks_u32 c.fallback _ buffer res _ c.eow.isSome
          (Boundaries_range _ _ (by omega)))

theorem encodePart_eq_spec_partial (c : BpeCtx) (hw : BpeWF c) (text : Bytes) (htext : text ≠ [])
    (hv : c.chars = true → useHeap (charIndices text).length = true → validUtf8 text = true)
    (buffer : List RankedPart) (res : List Id) :
    match bpePieceSpec c text with
    | .ok ids => ∃ buf, encodePart c (text ++ c.eow.getD []) buffer res = .ok (buf, res ++ ids)
    | .err e => encodePart c (text ++ c.eow.getD []) buffer res = .err e
    | .panic _ => ∃ q, encodePart c (text ++ c.eow.getD []) buffer res = .panic q :=
  (agreeW_iff _ _ _).1 (encodePart_agree c hw text htext hv buffer res)

/-! ### the loop over the parts -/

/-- `Bpe.encode` appends the suffix to every ordinary part. -/
def suffixParts (c : BpeCtx) (parts : List TextPart) : List TextPart :=
  parts.map fun p => if p.special == INVALID then { p with text := p.text ++ c.eow.getD [] } else p

theorem encode_eq_encodeParts (c : BpeCtx) (parts : List TextPart) :
    Bpe.encode c parts = encodeParts c (suffixParts c parts) [] [] := by
  unfold Bpe.encode suffixParts
  cases c.eow with
  | some e => rfl
  | none =>
    simp only [Option.getD_none, List.append_nil]
    congr 1
    conv => lhs; rw [← List.map_id parts]
    apply List.map_congr_left
    intro p _
    split <;> rfl

/-- Agreement of a final outcome. -/
def AgreeR (res : List Id) (m : Res (List Id)) (s : Res (List Id)) : Prop :=
  match s with
  | .ok ids => m = .ok (res ++ ids)
  | .err e => m = .err e
  | .panic _ => ∃ q, m = .panic q

theorem seqRes_cons (r : Res (List Id)) (rs : List (Res (List Id))) :
    seqRes (r :: rs) = specSeq r (seqRes rs) := by
  cases r <;> rfl

theorem agreeR_seq_ok (result ids : List Id) (m : Res (List Id)) (s : Res (List Id))
    (h : AgreeR (result ++ ids) m s) : AgreeR result m (specSeq (.ok ids) s) := by
  cases s with
  | ok more => simp only [AgreeR, specSeq] at h ⊢; rw [h, List.append_assoc]
  | err e => exact h
  | panic t => exact h

theorem encodeParts_agree (c : BpeCtx) (hw : BpeWF c) : ∀ (parts : List TextPart),
    (∀ p ∈ parts, p.special = INVALID → p.text ≠ []) →
    (∀ p ∈ parts, p.special = INVALID → c.chars = true → useHeap (charIndices p.text).length = true →
      validUtf8 p.text = true) →
    ∀ (buffer : List RankedPart) (result : List Id),
    AgreeR result (encodeParts c (suffixParts c parts) buffer result)
      (seqRes (parts.map (perPart (bpePieceSpec c))))
  | [], _, _, buffer, result => by
    simp [suffixParts, encodeParts, seqRes, AgreeR]
  | p :: ps, hne, hv, buffer, result => by
    have ih := encodeParts_agree c hw ps (fun q hq => hne q (by simp [hq])) (fun q hq => hv q (by simp [hq]))
    have hcons : suffixParts c (p :: ps) =
        (if p.special == INVALID then { p with text := p.text ++ c.eow.getD [] } else p) :: suffixParts c ps := rfl
    rw [hcons, List.map_cons, seqRes_cons, perPart]
    by_cases hp : p.special = INVALID
    · have h1 : (p.special == INVALID) = true := by simp [hp]
      have h2 : (p.special != INVALID) = false := by simp [hp]
      simp only [h1, if_true, h2, Bool.false_eq_true, if_false]
      rw [encodeParts]
      simp only [h2, Bool.false_eq_true, if_false]
      have hpart := encodePart_agree c hw p.text (hne p (by simp) hp) (hv p (by simp) hp) buffer result
      cases hs : bpePieceSpec c p.text with
      | ok ids =>
        rw [hs] at hpart
        obtain ⟨buf, hm⟩ := hpart
        rw [hm]
        exact agreeR_seq_ok _ _ _ _ (ih buf (result ++ ids))
      | err e =>
        rw [hs] at hpart
        simp only [AgreeW] at hpart
        rw [hpart]
        rfl
      | panic t =>
        rw [hs] at hpart
        obtain ⟨q, hq⟩ := hpart
        rw [hq]
        exact ⟨q, rfl⟩
    · have h1 : (p.special == INVALID) = false := by simp [hp]
      have h2 : (p.special != INVALID) = true := by simp [hp]
      simp only [h1, Bool.false_eq_true, if_false, h2, if_true]
      rw [encodeParts]
      simp only [h2, if_true]
      exact agreeR_seq_ok _ _ _ _ (ih buffer (result ++ [p.special]))

theorem encode_eq_flatMap_partial (c : BpeCtx) (hw : BpeWF c) (parts : List TextPart)
    (hne : ∀ p ∈ parts, p.special = INVALID → p.text ≠ [])
    (hv : ∀ p ∈ parts, p.special = INVALID → c.chars = true → useHeap (charIndices p.text).length = true →
      validUtf8 p.text = true) :
    (match seqRes (parts.map (perPart (bpePieceSpec c))) with
     | .ok ids => Bpe.encode c parts = .ok ids
     | .err e => Bpe.encode c parts = .err e
     | .panic _ => ∃ q, Bpe.encode c parts = .panic q) := by
  have := encodeParts_agree c hw parts hne hv [] []
  rw [← encode_eq_encodeParts] at this
  cases hs : seqRes (parts.map (perPart (bpePieceSpec c))) with
  | ok ids => rw [hs] at this; simpa [AgreeR] using this
  | err e => rw [hs] at this; exact this
  | panic t => rw [hs] at this; exact this

/-! ### no panic: specification side -/

/-- The last segment (if any) is longer than `n`. -/
def LastLen (n : Nat) : List Bytes → Prop
  | [] => True
  | [u] => n < u.length
  | _ :: v :: r => LastLen n (v :: r)

theorem LastLen_cons (n : Nat) (u : Bytes) (l : List Bytes) (h : l ≠ []) :
    LastLen n (u :: l) ↔ LastLen n l := by
  cases l with
  | nil => exact absurd rfl h
  | cons v r => exact Iff.rfl

theorem mergeAt_ne_nil (i : Nat) (l : List Bytes) (h : l ≠ []) : mergeAt i l ≠ [] := by
  fun_induction mergeAt i l <;> simp_all

theorem mergeAt_LastLen (n i : Nat) (l : List Bytes) (h : LastLen n l) : LastLen n (mergeAt i l) := by
  fun_induction mergeAt i l with
  | case1 a b rest =>
    cases rest with
    | nil => simp only [LastLen, List.length_append] at h ⊢; omega
    | cons x r => exact h
  | case2 i a rest ih =>
    cases rest with
    | nil => simpa [mergeAt] using h
    | cons x r =>
      rw [LastLen_cons n a _ (mergeAt_ne_nil i _ (by simp))]
      exact ih h
  | case3 i l h1 h2 => exact h

theorem bpeSpec_LastLen (n : Nat) (rk : Bytes → Nat) (segs : List Bytes) (h : LastLen n segs) :
    LastLen n (bpeSpec rk segs) := by
  fun_induction bpeSpec rk segs with
  | case1 segs _ => exact h
  | case2 segs i _ => exact h
  | case3 segs i r _ _ ih => exact ih (mergeAt_LastLen n i segs h)

theorem segsOfStarts_ne_nil (piece : Bytes) (a b : Nat) (r : List Nat) :
    segsOfStarts piece (a :: b :: r) ≠ [] := by simp [segsOfStarts]

theorem LastLen_segsOfStarts (n : Nat) (piece : Bytes) : ∀ (starts : List Nat),
    (∀ s ∈ starts, s + n < piece.length) → LastLen n (segsOfStarts piece (starts ++ [piece.length]))
  | [], _ => trivial
  | [a], h => by
    have := h a (by simp)
    simp only [List.cons_append, List.nil_append, segsOfStarts, LastLen]
    rw [slice_length piece a piece.length (Nat.le_refl _)]
    omega
  | a :: b :: r, h => by
    have ih := LastLen_segsOfStarts n piece (b :: r) (fun s hs => h s (by simp [hs]))
    simp only [List.cons_append, segsOfStarts] at ih ⊢
    rw [LastLen_cons]
    · exact ih
    · cases r <;> simp [segsOfStarts]

theorem specSeq_noPanic (a b : Res (List Id)) (ha : a.isPanic = false) (hb : b.isPanic = false) :
    (specSeq a b).isPanic = false := by
  cases a <;> cases b <;> simp_all [specSeq, Res.isPanic]

theorem fallbackLeaf_noPanic (u : Option Id) (fb : List Fallback) (seg : Bytes) :
    (fallbackLeaf u fb seg).isPanic = false := by
  unfold fallbackLeaf
  split
  · cases u <;> rfl
  · rfl
  · rfl

/-- The byte-level recursion never panics on inputs whose last unit is longer than the suffix. -/
def RecSafe (c : BpeCtx) (s : Bool → List Bytes → Res (List Id)) : Prop :=
  ∀ sfx units, (sfx = true → LastLen (eowLen c) units) → (s sfx units).isPanic = false

theorem stepSpec_noPanic (c : BpeCtx) (fb : List Fallback) (srec)
    (hrec : ∀ s, srec = some s → RecSafe c s) (seg : Bytes) (sfx : Bool)
    (hl : sfx = true → eowLen c < seg.length) : (stepSpec c fb srec seg sfx).isPanic = false := by
  unfold stepSpec
  cases c.tok seg with
  | some t => rfl
  | none =>
    cases srec with
    | none => exact fallbackLeaf_noPanic _ _ _
    | some s =>
      have he : (if sfx = true then (match c.eow with | some e => e.length | none => 0) else 0) =
          (if sfx = true then eowLen c else 0) := rfl
      simp only [he]
      cases sfx with
      | false =>
        simp only [Bool.false_eq_true, if_false, Nat.not_lt_zero, gt_iff_lt]
        exact hrec s rfl false _ (by simp)
      | true =>
        have := hl rfl
        have hn : ¬ eowLen c > seg.length := by omega
        simp only [if_true, hn, if_false]
        apply hrec s rfl true _
        intro _
        apply LastLen_segsOfStarts
        intro x hx
        have := List.mem_range.mp hx
        omega

theorem emitSegments_noPanic (c : BpeCtx) (fb : List Fallback) (srec)
    (hrec : ∀ s, srec = some s → RecSafe c s) (sfx : Bool) : ∀ (segs : List Bytes),
    (sfx = true → LastLen (eowLen c) segs) → (emitSegments c fb srec sfx segs).isPanic = false := by
  intro segs
  induction segs with
  | nil => intro _; rfl
  | cons seg rest ih =>
    intro h
    rw [emitSegments_cons]
    apply specSeq_noPanic
    · apply stepSpec_noPanic c fb srec hrec
      intro hs
      simp only [Bool.and_eq_true, List.isEmpty_iff] at hs
      have := h hs.1
      rw [hs.2] at this
      exact this
    · apply ih
      intro hs
      cases rest with
      | nil => trivial
      | cons v r => exact h hs

theorem bpeSegments_noPanic (c : BpeCtx) : ∀ (fb : List Fallback), RecSafe c (bpeSegments c fb)
  | [], sfx, units, h => by
    rw [bpeSegments]
    exact emitSegments_noPanic c _ none (by simp) sfx _ (fun hs => bpeSpec_LastLen _ _ _ (h hs))
  | .unknown :: _, sfx, units, h => by
    rw [bpeSegments]
    exact emitSegments_noPanic c _ none (by simp) sfx _ (fun hs => bpeSpec_LastLen _ _ _ (h hs))
  | .skip :: _, sfx, units, h => by
    rw [bpeSegments]
    exact emitSegments_noPanic c _ none (by simp) sfx _ (fun hs => bpeSpec_LastLen _ _ _ (h hs))
  | .bytes :: tail, sfx, units, h => by
    rw [bpeSegments]
    refine emitSegments_noPanic c _ (some (bpeSegments c tail)) ?_ sfx _
      (fun hs => bpeSpec_LastLen _ _ _ (h hs))
    intro s hs
    simp only [Option.some.injEq] at hs
    subst hs
    exact bpeSegments_noPanic c tail

theorem chain_starts_lt {len : Nat} : ∀ (l : List (Nat × Nat)) (p : Nat), WordPiece.Chain len p l →
    ∀ x ∈ l, x.1 < len := by
  intro l
  induction l with
  | nil => intro p _ x hx; simp at hx
  | cons se rest ih =>
    obtain ⟨s, e⟩ := se
    intro p h x hx
    obtain ⟨rfl, hse, hrest⟩ := h
    have hb := (WordPiece.chain_ends_bounds rest e hrest).1
    simp only [List.mem_cons] at hx
    rcases hx with rfl | hx
    · simp only; omega
    · exact ih e hrest x hx

theorem charStarts_lt (text : Bytes) : ∀ s ∈ charStarts text, s < text.length := by
  have hc := WordPiece.chain_charIndicesFrom 0 text
  rw [Nat.zero_add] at hc
  intro s hs
  simp only [charStarts, charIndices, List.mem_map] at hs
  obtain ⟨x, hx, rfl⟩ := hs
  exact chain_starts_lt _ 0 hc (WordPiece.spanOf x) (List.mem_map_of_mem hx)

theorem bpePieceSpec_noPanic (c : BpeCtx) (text : Bytes) : (bpePieceSpec c text).isPanic = false := by
  cases htok : c.tok (text ++ c.eow.getD []) with
  | some t => unfold bpePieceSpec; simp only [htok]; rfl
  | none =>
    rw [bpePieceSpec_none c text htok]
    apply bpeSegments_noPanic
    intro _
    apply LastLen_segsOfStarts
    intro s hs
    have hlen : (text ++ c.eow.getD []).length = text.length + eowLen c := by
      rw [eowLen_eq_getD, List.length_append]
    have : s < text.length := by
      split at hs
      · exact charStarts_lt text s hs
      · exact List.mem_range.mp hs
    omega

/-! ### no panic: model side (heap strategy on arbitrary units, emission loops, parts) -/

/-- Every node starts before the suffix region and the last node is wider than the suffix. -/
def HeapSafe (n len : Nat) (nodes : List LinkedPart) : Prop :=
  (∀ (j : Nat) (x : LinkedPart), nodes[j]? = some x → x.start + n < len) ∧
  (∀ x : LinkedPart, nodes[nodes.length - 1]? = some x → n < x.width)

theorem heapStep_length (c : BpeCtx) (piece : Bytes) (nodes : List LinkedPart) (k : Nat)
    (hk : k + 1 < nodes.length) : (heapStep c piece nodes k).length = nodes.length - 1 := by
  simp only [heapStep]
  split <;> simp [List.length_eraseIdx, hk]

theorem heapStep_getElem? (c : BpeCtx) (piece : Bytes) (nodes : List LinkedPart) (k : Nat)
    (hk : k + 1 < nodes.length) (j : Nat) (x : LinkedPart) (h : (heapStep c piece nodes k)[j]? = some x) :
    ∃ y z, nodes[if j ≤ k then j else j + 1]? = some y ∧ nodes[k + 1]? = some z ∧ x.start = y.start ∧
      x.width = if j = k then y.width + z.width else y.width := by
  simp only [heapStep] at h
  grind

theorem heapStep_safe (c : BpeCtx) (piece : Bytes) (n len : Nat) (nodes : List LinkedPart) (k : Nat)
    (hk : k + 1 < nodes.length) (h : HeapSafe n len nodes) : HeapSafe n len (heapStep c piece nodes k) := by
  refine ⟨?_, ?_⟩
  · intro j x hx
    obtain ⟨y, z, hy, _, hs, _⟩ := heapStep_getElem? c piece nodes k hk j x hx
    rw [hs]
    exact h.1 _ y hy
  · intro x hx
    rw [heapStep_length c piece nodes k hk] at hx
    obtain ⟨y, z, hy, hz, _, hw⟩ := heapStep_getElem? c piece nodes k hk _ x hx
    by_cases hj : nodes.length - 1 - 1 = k
    · rw [if_pos hj] at hw
      have : k + 1 = nodes.length - 1 := by omega
      rw [this] at hz
      have := h.2 z hz
      omega
    · have hlt : ¬ nodes.length - 1 - 1 ≤ k := by omega
      rw [if_neg hlt] at hy
      rw [if_neg hj] at hw
      have : nodes.length - 1 - 1 + 1 = nodes.length - 1 := by omega
      rw [this] at hy
      have := h.2 y hy
      omega

theorem heapLoop_safe (c : BpeCtx) (piece : Bytes) (n len : Nat) (nodes : List LinkedPart)
    (h : HeapSafe n len nodes) : HeapSafe n len (heapLoop c piece nodes) := by
  fun_induction heapLoop c piece nodes with
  | case1 nodes _ _ => exact h
  | case2 nodes _ k _ _ => exact h
  | case3 nodes _ k _ hc ih =>
    apply ih
    apply heapStep_safe c piece n len nodes k _ h
    omega
  | case4 nodes _ => exact h

theorem heapInit_length (c : BpeCtx) (piece : Bytes) (units : List (Nat × Nat)) :
    (heapInit c piece units).length = units.length := by
  fun_induction heapInit c piece units <;> simp_all

theorem heapInit_safe (c : BpeCtx) (piece : Bytes) (n : Nat) (units : List (Nat × Nat))
    (h : ∀ u ∈ units, u.1 + n < piece.length) : HeapSafe n piece.length (heapInit c piece units) := by
  fun_induction heapInit c piece units with
  | case1 => exact ⟨by simp, by simp⟩
  | case2 i w =>
    have := h (i, w) (by simp)
    refine ⟨?_, ?_⟩
    · intro j x hx
      cases j <;> simp at hx
      subst hx; simpa using this
    · intro x hx
      simp at hx
      subst hx
      simp only at this ⊢
      omega
  | case3 i w j n' rest ih =>
    have ih := ih (fun u hu => h u (by simp [hu]))
    have h0 := h (i, w) (by simp)
    refine ⟨?_, ?_⟩
    · intro j x hx
      cases j with
      | zero => simp at hx; subst hx; simpa using h0
      | succ j => exact ih.1 j x (by simpa using hx)
    · intro x hx
      apply ih.2 x
      have hl := heapInit_length c piece ((j, n') :: rest)
      simp only [List.length_cons] at hl hx
      rw [hl] at hx ⊢
      simpa using hx

/-- The model's byte-level recursion never panics when, in a suffixed call, the segment is longer
    than the suffix. -/
def RecSafeM (c : BpeCtx) (r : PairsFn) : Prop :=
  ∀ seg buffer result sfx, (sfx = true → eowLen c < seg.length) →
    (r seg buffer result (List.range (seg.length - (if sfx = true then eowLen c else 0))) sfx).isPanic = false

theorem agree_noPanic (pre : List RankedPart) (res : List Id) (m : Res Scratch) (s : Res (List Id))
    (h : Agree pre res m s) (hs : s.isPanic = false) : m.isPanic = false := by
  cases s with
  | ok ids => obtain ⟨b, hm, _⟩ := h; subst hm; rfl
  | err e => simp only [Agree] at h; subst h; rfl
  | panic t => simp [Res.isPanic] at hs

theorem agreeW_noPanic (res : List Id) (m : Res Scratch) (s : Res (List Id))
    (h : AgreeW res m s) (hs : s.isPanic = false) : m.isPanic = false := by
  cases s with
  | ok ids => obtain ⟨b, hm⟩ := h; subst hm; rfl
  | err e => simp only [AgreeW] at h; subst h; rfl
  | panic t => simp [Res.isPanic] at hs

theorem encodePairs_safe (c : BpeCtx) (hr : ∀ b, rankOf c b ≤ MAXR) (fb : List Fallback) :
    RecSafeM c (encodePairs c fb) := by
  intro seg buffer result sfx hl
  have hk : seg.length - (if sfx = true then eowLen c else 0) ≤ seg.length := by omega
  refine agree_noPanic _ _ _ _
    (encodePairs_agree c hr fb seg buffer result _ sfx (Boundaries_range _ _ hk)) ?_
  apply bpeSegments_noPanic
  intro hs
  apply LastLen_segsOfStarts
  intro x hx
  have := List.mem_range.mp hx
  have := hl hs
  simp only [hs, if_true] at *
  omega

theorem modelSeq_noPanic (m1 : Res Scratch) (k : List RankedPart → List Id → Res Scratch)
    (h1 : m1.isPanic = false) (h2 : ∀ b r, (k b r).isPanic = false) : (modelSeq m1 k).isPanic = false := by
  cases m1 with
  | ok br => obtain ⟨b, r⟩ := br; exact h2 b r
  | err e => rfl
  | panic t => simp [Res.isPanic] at h1

theorem stepModel_noPanic (msg : String) (c : BpeCtx) (fb : List Fallback) (rec : Option PairsFn)
    (hrec : ∀ r, rec = some r → RecSafeM c r) (seg : Bytes) (sfx : Bool)
    (hl : sfx = true → eowLen c < seg.length) (buffer : List RankedPart) (result : List Id) :
    (stepModel msg c fb rec seg sfx buffer result).isPanic = false := by
  unfold stepModel
  cases c.tok seg with
  | some t => rfl
  | none =>
    cases rec with
    | none =>
      simp only [fallbackNoBytes_eq]
      have := fallbackLeaf_noPanic c.unknown fb seg
      cases hf : fallbackLeaf c.unknown fb seg with
      | ok ids => rfl
      | err e => rfl
      | panic t => rw [hf] at this; simp [Res.isPanic] at this
    | some r =>
      simp only [eowLen_eq]
      generalize hE : (if sfx = true then (match c.eow with | some e => e.length | none => 0) else 0) = E
      have hE' : E = if sfx = true then eowLen c else 0 := by rw [← hE]; rfl
      subst hE'
      have hn : ¬ (if sfx = true then eowLen c else 0) > seg.length := by
        cases sfx with
        | false => simp
        | true => have := hl rfl; simp only [if_true]; omega
      simp only [hn, if_false]
      exact hrec r rfl seg buffer result sfx hl

theorem slice_length_gt (piece : Bytes) (s w n : Nat) (h1 : s + n < piece.length) (h2 : n < w) :
    n < (slice piece s (s + w)).length := by
  simp only [slice, List.length_take, List.length_drop]
  omega

theorem emitHeap_noPanic (c : BpeCtx) (fb : List Fallback) (rec : Option PairsFn)
    (hrec : ∀ r, rec = some r → RecSafeM c r) (piece : Bytes) (suffixed : Bool) :
    ∀ (nodes : List LinkedPart) (buffer : List RankedPart) (result : List Id),
    HeapSafe (eowLen c) piece.length nodes →
    (emitHeap c fb rec piece suffixed nodes buffer result).isPanic = false := by
  intro nodes
  induction nodes with
  | nil => intro buffer result _; simp [emitHeap, Res.isPanic]
  | cons part rest ih =>
    intro buffer result hs
    rw [emitHeap_cons]
    apply modelSeq_noPanic
    · apply stepModel_noPanic _ c fb rec hrec
      intro hsfx
      simp only [Bool.and_eq_true, List.isEmpty_iff] at hsfx
      obtain ⟨_, hre⟩ := hsfx
      subst hre
      exact slice_length_gt piece _ _ _ (hs.1 0 part rfl) (hs.2 part rfl)
    · intro b r
      apply ih
      refine ⟨fun j x hx => hs.1 (j + 1) x (by simpa using hx), ?_⟩
      intro x hx
      cases rest with
      | nil => simp at hx
      | cons v r' =>
        apply hs.2 x
        simp only [List.length_cons] at hx ⊢
        simpa using hx

theorem encodePairsHeap_noPanic (c : BpeCtx) (hr : ∀ b, rankOf c b ≤ MAXR) (fb : List Fallback) (piece : Bytes)
    (buffer : List RankedPart) (result : List Id) (units : List (Nat × Nat)) (suffixed : Bool)
    (h : ∀ u ∈ units, u.1 + eowLen c < piece.length) :
    (encodePairsHeap c fb piece buffer result units suffixed).isPanic = false := by
  unfold encodePairsHeap
  apply emitHeap_noPanic
  · intro r hr'
    split at hr'
    · simp only [Option.some.injEq] at hr'
      subst hr'
      exact encodePairs_safe c hr _
    · simp at hr'
  · exact heapLoop_safe c piece _ _ _ (heapInit_safe c piece _ units h)

theorem encodePart_noPanic (c : BpeCtx) (hw : BpeWF c) (text : Bytes) (htext : text ≠ [])
    (buffer : List RankedPart) (res : List Id) :
    (encodePart c (text ++ c.eow.getD []) buffer res).isPanic = false := by
  by_cases hcond : c.chars = true ∧ useHeap (charIndices text).length = true
  · cases htok : c.tok (text ++ c.eow.getD []) with
    | some t => rw [Bpe.shortcut c _ t buffer res hw.keys_bounded htok]; rfl
    | none =>
      have hlen : (text ++ c.eow.getD []).length = text.length + eowLen c := by
        rw [eowLen_eq_getD, List.length_append]
      have hbody : (text ++ c.eow.getD []).length - eowLen c = text.length := by omega
      have htake : (text ++ c.eow.getD []).take text.length = text := List.take_left' rfl
      rw [encodePart_none c _ buffer res htok (by omega), hbody, htake]
      have hh : useHeap (extLast (eowLen c) (charUnits (charIndices text))).length = true := by
        rw [extLast_length]; simpa [charUnits] using hcond.2
      simp only [hcond.1, if_true, hh]
      apply encodePairsHeap_noPanic c hw.ranks_u32
      intro u hu
      have hm : u.1 ∈ charStarts text := by
        have : u.1 ∈ (extLast (eowLen c) (charUnits (charIndices text))).map (·.1) :=
          List.mem_map_of_mem hu
        rw [extLast_map_fst, charUnits_map_fst] at this
        exact this
      have := charStarts_lt text _ hm
      omega
  · exact agreeW_noPanic _ _ _
      (encodePart_agree c hw text htext (fun h1 h2 => absurd ⟨h1, h2⟩ hcond) buffer res)
      (bpePieceSpec_noPanic c text)

theorem encodeParts_noPanic (c : BpeCtx) (hw : BpeWF c) : ∀ (parts : List TextPart),
    (∀ p ∈ parts, p.special = INVALID → p.text ≠ []) →
    ∀ (buffer : List RankedPart) (result : List Id),
    (encodeParts c (suffixParts c parts) buffer result).isPanic = false
  | [], _, buffer, result => by simp [suffixParts, encodeParts, Res.isPanic]
  | p :: ps, hne, buffer, result => by
    have ih := encodeParts_noPanic c hw ps (fun q hq => hne q (by simp [hq]))
    have hcons : suffixParts c (p :: ps) =
        (if p.special == INVALID then { p with text := p.text ++ c.eow.getD [] } else p) :: suffixParts c ps := rfl
    rw [hcons]
    by_cases hp : p.special = INVALID
    · have h1 : (p.special == INVALID) = true := by simp [hp]
      have h2 : (p.special != INVALID) = false := by simp [hp]
      simp only [h1, if_true]
      rw [encodeParts]
      simp only [h2, Bool.false_eq_true, if_false]
      have hpart := encodePart_noPanic c hw p.text (hne p (by simp) hp) buffer result
      cases hm : encodePart c (p.text ++ c.eow.getD []) buffer result with
      | ok br => obtain ⟨b, r⟩ := br; exact ih b r
      | err e => rfl
      | panic t => rw [hm] at hpart; simp [Res.isPanic] at hpart
    · have h1 : (p.special == INVALID) = false := by simp [hp]
      have h2 : (p.special != INVALID) = true := by simp [hp]
      simp only [h1, Bool.false_eq_true, if_false]
      rw [encodeParts]
      simp only [h2, if_true]
      exact ih buffer _

theorem bpe_no_panic (c : BpeCtx) (hw : BpeWF c) (parts : List TextPart)
    (hne : ∀ p ∈ parts, p.special = INVALID → p.text ≠ []) :
    (Bpe.encode c parts).isPanic = false := by
  rw [encode_eq_encodeParts]
  exact encodeParts_noPanic c hw parts hne [] []

/-! ### the statements without the UTF-8 hypothesis are false -/

/-- Character mode, empty vocabulary, no fallback. -/
def cexCtx : BpeCtx :=
  { tok := fun _ => none, rank := fun _ => none, unknown := none, eow := none, chars := true,
    fallback := [], maxTok := 0, minTok := 0 }

/-- 193 invalid bytes: one more unit than `ENCODE_LINEAR_LIMIT`. -/
def cexText : Bytes := List.replicate 193 0xFF

theorem cexCtx_wf : BpeWF cexCtx := ⟨fun _ => Nat.le_refl _, fun _ _ h => by simp [cexCtx] at h⟩

theorem decodeOne_ff (t : Bytes) : decodeOne (0xFF :: t) = (none, 1) := by
  simp [decodeOne]

theorem charIndicesFrom_ff : ∀ (n pos : Nat),
    charIndicesFrom pos (List.replicate n 0xFF) = (List.range' pos n).map fun i => (i, i + 1, REPLACEMENT)
  | 0, pos => by simp [charIndicesFrom_nil]
  | n + 1, pos => by
    rw [List.replicate_succ, charIndicesFrom_cons, decodeOne_ff, List.range'_succ, List.map_cons]
    simp only [Option.getD_none, List.drop_succ_cons, List.drop_zero]
    rw [charIndicesFrom_ff n (pos + 1)]

theorem extLast_zero (l : List (Nat × Nat)) : extLast 0 l = l := by
  fun_induction extLast 0 l <;> simp_all

theorem heapInit_rank (c : BpeCtx) (hc : ∀ b, c.rank b = none) (piece : Bytes) (us : List (Nat × Nat)) :
    ∀ x ∈ heapInit c piece us, x.rank = MAXR := by
  fun_induction heapInit c piece us with
  | case1 => simp
  | case2 i w => simp
  | case3 i w j n rest ih =>
    intro x hx
    simp only [List.mem_cons] at hx
    rcases hx with rfl | hx
    · simp [rankOf, hc]
    · exact ih x hx

theorem heapLoop_allMax (c : BpeCtx) (piece : Bytes) (nodes : List LinkedPart)
    (h : ∀ x ∈ nodes, x.rank = MAXR) : heapLoop c piece nodes = nodes := by
  rw [Bpe.heapLoop_eq]
  split
  · split
    · rfl
    · rename_i k _
      by_cases hk : k + 1 < nodes.length
      · have : (nodes.getD k default).rank = MAXR := by
          apply h
          rw [List.getD_eq_getElem?_getD, List.getElem?_eq_getElem (by omega)]
          simp
        rw [if_pos (Or.inl this)]
      · rw [if_pos (Or.inr hk)]
  · rfl

theorem bestPair_const (rk : Bytes → Nat) (hrk : ∀ b, rk b = MAXR) (l : List Bytes) (i r : Nat)
    (h : bestPair rk l = some (i, r)) : r = MAXR := by
  fun_induction bestPair rk l generalizing i r <;> grind [pairRank]

theorem bpeSpec_const (rk : Bytes → Nat) (hrk : ∀ b, rk b = MAXR) (l : List Bytes) : bpeSpec rk l = l := by
  rw [Bpe.bpeSpec_eq]
  split
  · rfl
  · rename_i i r h
    simp [bestPair_const rk hrk l i r h]

theorem cex_units : extLast (eowLen cexCtx) (charUnits (charIndices cexText)) =
    (List.range' 0 193).map fun i => (i, 3) := by
  have h0 : eowLen cexCtx = 0 := rfl
  rw [h0, extLast_zero]
  unfold charIndices cexText
  rw [charIndicesFrom_ff]
  simp only [charUnits, List.map_map]
  rfl

theorem cex_model :
    encodePart cexCtx (cexText ++ cexCtx.eow.getD []) [] [] = .err (.invalidPiece [255, 255, 255]) := by
  have h0 : eowLen cexCtx = 0 := rfl
  have hp : cexText ++ cexCtx.eow.getD [] = cexText := List.append_nil _
  rw [hp, encodePart_none cexCtx cexText [] [] rfl (by rw [h0]; exact Nat.not_lt_zero _)]
  have ht : cexText.take (cexText.length - eowLen cexCtx) = cexText := by rw [h0]; simp
  have hc : cexCtx.chars = true := rfl
  rw [ht, cex_units]
  simp only [hc, if_true, List.length_map, List.length_range']
  have hu : useHeap 193 = true := by decide
  simp only [hu, if_true]
  unfold encodePairsHeap
  have hr : ∀ b, cexCtx.rank b = none := fun _ => rfl
  rw [heapLoop_allMax _ _ _ (heapInit_rank cexCtx hr _ _)]
  have hrange : List.range' 0 193 = 0 :: 1 :: List.range' 2 191 := rfl
  rw [hrange, List.map_cons, List.map_cons, heapInit, emitHeap_cons]
  rfl

theorem cex_spec : bpePieceSpec cexCtx cexText = .err (.invalidPiece [255]) := by
  rw [bpePieceSpec_none cexCtx cexText rfl]
  have hp : cexText ++ cexCtx.eow.getD [] = cexText := List.append_nil _
  have hc : cexCtx.chars = true := rfl
  have hf : cexCtx.fallback = [] := rfl
  have hcs : charStarts cexText = List.range' 0 193 := by
    unfold charStarts charIndices cexText
    rw [charIndicesFrom_ff]
    simp [List.map_map, Function.comp_def]
  rw [hp, hf, bpeSegments, bpeSpec_const (rankOf cexCtx) (fun _ => rfl)]
  simp only [hc, if_true, hcs]
  have hrange : List.range' 0 193 = 0 :: 1 :: List.range' 2 191 := rfl
  rw [hrange]
  simp only [List.cons_append, segsOfStarts]
  rw [emitSegments_cons]
  rfl

/-- The statement of `encodePart_eq_spec` without the UTF-8 hypothesis is false. -/
theorem encodePart_eq_spec_unrestricted_false :
    ¬ ∀ (c : BpeCtx) (_ : BpeWF c) (text : Bytes) (_ : text ≠ []) (buffer : List RankedPart) (res : List Id),
      match bpePieceSpec c text with
      | .ok ids => ∃ buf, encodePart c (text ++ c.eow.getD []) buffer res = .ok (buf, res ++ ids)
      | .err e => encodePart c (text ++ c.eow.getD []) buffer res = .err e
      | .panic _ => ∃ q, encodePart c (text ++ c.eow.getD []) buffer res = .panic q := by
  intro H
  have := H cexCtx cexCtx_wf cexText (by simp [cexText]) [] []
  rw [cex_spec] at this
  simp only [cex_model] at this
  simp at this

/-- The statement of `bpe_encode_eq_flatMap` without the UTF-8 hypothesis is false. -/
theorem encode_eq_flatMap_unrestricted_false :
    ¬ ∀ (c : BpeCtx) (_ : BpeWF c) (parts : List TextPart)
        (_ : ∀ p ∈ parts, p.special = INVALID → p.text ≠ []),
      (match seqRes (parts.map (perPart (bpePieceSpec c))) with
       | .ok ids => Bpe.encode c parts = .ok ids
       | .err e => Bpe.encode c parts = .err e
       | .panic _ => ∃ q, Bpe.encode c parts = .panic q) := by
  intro H
  have := H cexCtx cexCtx_wf [{ text := cexText, special := INVALID }] (by simp [cexText])
  have hs : seqRes ([{ text := cexText, special := INVALID }].map (perPart (bpePieceSpec cexCtx))) =
      .err (.invalidPiece [255]) := by
    simp only [List.map_cons, List.map_nil, seqRes_cons, perPart]
    have : (INVALID != INVALID) = false := by simp
    simp only [this, Bool.false_eq_true, if_false, cex_spec]
    rfl
  have hm : Bpe.encode cexCtx [{ text := cexText, special := INVALID }] =
      .err (.invalidPiece [255, 255, 255]) := by
    rw [encode_eq_encodeParts]
    have h1 : suffixParts cexCtx [{ text := cexText, special := INVALID }] =
        [{ text := cexText ++ cexCtx.eow.getD [], special := INVALID }] := by
      simp [suffixParts]
    rw [h1, encodeParts]
    have : (INVALID != INVALID) = false := by simp
    simp only [this, Bool.false_eq_true, if_false, cex_model]
  rw [hs, hm] at this
  simp at this

end Kitoken.Proofs.BpeEncode
