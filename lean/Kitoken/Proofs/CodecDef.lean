/-
  Lemmas for C14, part 2: the codec law for the wire format of a `Definition`
  (Kitoken.Model.DefCodec), for every representable definition. Core Lean only.
-/
import Kitoken.Proofs.CodecBasic
import Kitoken.Spec.Serial
namespace Kitoken.Proofs.Codec

open Kitoken Kitoken.Codec Kitoken.Utf8 Kitoken.DefCodec Kitoken.Spec

/-! ## Lean strings and their UTF-8 bytes -/

theorem byteArray_toList_loop (bs : ByteArray) (i : Nat) (r : List UInt8) :
    ByteArray.toList.loop bs i r = r.reverse ++ bs.data.toList.drop i := by
  fun_induction ByteArray.toList.loop bs i r with
  | case1 i r h ih =>
    rw [ih]
    have hi : i < bs.data.toList.length := by
      rw [← ByteArray.size_data] at h; simpa using h
    rw [List.drop_eq_getElem_cons hi]
    have hg : bs.get! i = bs.data.toList[i] := by
      cases bs with
      | mk d =>
        simp only [ByteArray.get!]
        have : i < d.size := by simpa using hi
        simp [this]
    simp [hg]
  | case2 i r h =>
    have : bs.data.toList.length ≤ i := by
      rw [← ByteArray.size_data] at h; simpa using h
    simp [List.drop_eq_nil_of_le this]

theorem byteArray_toList (bs : ByteArray) : bs.toList = bs.data.toList := by
  simp [ByteArray.toList, byteArray_toList_loop]

theorem toUTF8_toList (p : String) : p.toUTF8.toList = encodeChars p.toList := by
  rw [byteArray_toList, String.toUTF8_eq_toByteArray, ← String.utf8Encode_toList]
  simp [List.utf8Encode, encodeChars, List.data_toByteArray]
  rfl

theorem validUtf8_toUTF8 (p : String) : validUtf8 p.toUTF8.toList = true := by
  rw [toUTF8_toList]; exact validUtf8_encodeChars _

theorem fromUTF8_toUTF8 (p : String) : String.fromUTF8! ⟨p.toUTF8.toList.toArray⟩ = p := by
  rw [byteArray_toList]
  simp only [Array.toArray_toList, String.toUTF8_eq_toByteArray]
  unfold String.fromUTF8!
  rw [dif_pos p.isValidUTF8]
  rfl

/-! ## unit enums -/

theorem unitEnum_law (name : String) (names : List String) (tagOf : α → Nat) (ofTag : Nat → Option α) (x : α)
    (ht : tagOf x < 2 ^ 32) (h : ofTag (tagOf x) = some x) : LawAt (unitEnum name names tagOf ofTag) x := by
  apply enum_law _ _ _ _ _ _ ht
  intro r; simp [h]

theorem unitEnum_pos (name : String) (names : List String) (tagOf : α → Nat) (ofTag : Nat → Option α) (x : α) :
    1 ≤ ((unitEnum name names tagOf ofTag).enc x).length := enum_enc_pos _ _ _ _ _ _

theorem fallback_law (x : Fallback) : LawAt fallback x := by
  cases x <;> exact unitEnum_law _ _ _ _ _ (by decide) rfl
theorem insertionPosition_law (x : InsertionPosition) : LawAt insertionPosition x := by
  cases x <;> exact unitEnum_law _ _ _ _ _ (by decide) rfl
theorem specialKind_law (x : SpecialKind) : LawAt specialKind x := by
  cases x <;> exact unitEnum_law _ _ _ _ _ (by decide) rfl
theorem unicodeScheme_law (x : UnicodeScheme) : LawAt unicodeScheme x := by
  cases x <;> exact unitEnum_law _ _ _ _ _ (by decide) rfl
theorem normCondition_law (x : NormCondition) : LawAt normCondition x := by
  cases x <;> exact unitEnum_law _ _ _ _ _ (by decide) rfl
theorem splitBehavior_law (x : SplitBehavior) : LawAt splitBehavior x := by
  cases x <;> exact unitEnum_law _ _ _ _ _ (by decide) rfl
theorem direction_law (x : Direction) : LawAt direction x := by
  cases x <;> exact unitEnum_law _ _ _ _ _ (by decide) rfl

theorem fallback_pos (x : Fallback) : 1 ≤ (fallback.enc x).length := unitEnum_pos _ _ _ _ _
theorem normCondition_pos (x : NormCondition) : 1 ≤ (normCondition.enc x).length := unitEnum_pos _ _ _ _ _

theorem nat32_law (n : Nat) (h : natOk n) : LawAt nat32 n := varU32_law n h

/-! ## patterns -/

theorem regex_law (ok : Bytes → Option Bool) (p : String) (hok : ok p.toUTF8.toList = some true)
    (hs : ((regex ok).enc p).length < 2 ^ 64) : LawAt (regex ok) p := by
  intro r
  have h := str_law_of_small p.toUTF8.toList hs (validUtf8_toUTF8 p) r
  simp only [regex] at h ⊢
  rw [h]
  simp only [bind, Option.bind, hok, fromUTF8_toUTF8]

theorem replacePattern_law (name : String) (ok : Bytes → Option Bool) (p : ReplacePattern) (hp : patternOk ok p)
    (hs : ((replacePattern name ok).enc p).length < 2 ^ 64) : LawAt (replacePattern name ok) p := by
  unfold replacePattern at hs ⊢
  cases p with
  | char c =>
    apply enum_law _ _ _ _ _ _ (by simp)
    intro r; simp [char_law c r]
  | string s =>
    have hs' : (Codec.str.enc s).length < 2 ^ 64 := by
      simp only [Codec.enum, List.length_append] at hs; omega
    apply enum_law _ _ _ _ _ _ (by simp)
    intro r; simp [str_law_of_small s hs' hp r]
  | regex p =>
    have hs' : ((regex ok).enc p).length < 2 ^ 64 := by
      simp only [Codec.enum, List.length_append] at hs; omega
    apply enum_law _ _ _ _ _ _ (by simp)
    intro r; simp [regex_law ok p hp hs' r]

theorem replacePattern_pos (name : String) (ok : Bytes → Option Bool) (p : ReplacePattern) :
    1 ≤ ((replacePattern name ok).enc p).length := enum_enc_pos _ _ _ _ _ _


/-! ## small-passing forms of the product lemmas -/

@[simp] theorem pair_enc (a : Codec α) (b : Codec β) (x : α) (y : β) : (Codec.pair a b).enc (x, y) = a.enc x ++ b.enc y := rfl
@[simp] theorem iso_enc (c : Codec α) (to : α → β) (back : β → α) (y : β) : (Codec.iso c to back).enc y = c.enc (back y) := rfl

theorem pair_law_of_small (a : Codec α) (b : Codec β) (x : α) (y : β)
    (hs : ((Codec.pair a b).enc (x, y)).length < 2 ^ 64)
    (ha : (a.enc x).length < 2 ^ 64 → LawAt a x) (hb : (b.enc y).length < 2 ^ 64 → LawAt b y) :
    LawAt (Codec.pair a b) (x, y) := by
  simp only [pair_enc, List.length_append] at hs
  exact pair_law a b x y (ha (by omega)) (hb (by omega))

theorem splitPattern_law (ok : Bytes → Option Bool) (p : SplitPattern) (b : SplitBehavior) (hp : splitOk ok (.pattern p b))
    (hs : ((DefCodec.splitPattern ok).enc p).length < 2 ^ 64) : LawAt (DefCodec.splitPattern ok) p := by
  unfold DefCodec.splitPattern at hs ⊢
  cases p with
  | char c => exact iso_law _ _ _ _ (replacePattern_law _ ok _ trivial hs) rfl
  | string s => exact iso_law _ _ _ _ (replacePattern_law _ ok _ hp hs) rfl
  | regex q => exact iso_law _ _ _ _ (replacePattern_law _ ok _ hp hs) rfl

theorem charsMap_law (m : CharsMap) (hs : (charsMap.enc m).length < 2 ^ 64) : LawAt charsMap m := by
  unfold charsMap at hs ⊢
  apply struct_law
  apply iso_law
  · apply pair_law_of_small _ _ _ _ hs
    · intro h
      exact seq_law_of_small _ _ (fun x _ => u32_enc_pos x) h (fun x _ _ => u32_law x)
    · intro h
      exact bytes_law_of_small _ h
  · simp

/-! ## Normalization -/

def ndepth : Normalization → Nat
  | .conditional _ i => ndepth i + 1
  | _ => 0

theorem encVarint_lit_length (k : Nat) (h : k < 128) : (encVarint k).length = 1 := by
  rw [encVarint_small k h]; rfl

theorem encNormalization_depth (ok : Bytes → Option Bool) (n : Normalization) :
    ndepth n + 1 ≤ (encNormalization ok n).length := by
  induction n with
  | conditional c i ih =>
    simp only [encNormalization, ndepth, List.length_append]
    have := encVarint_length_pos 10
    have := normCondition_pos c
    omega
  | _ =>
    simp only [encNormalization, ndepth, List.length_append]
    have := encVarint_length_pos
    first | (have := this 0; omega) | (have := this 1; omega) | (have := this 2; omega) | (have := this 3; omega)
          | (have := this 4; omega) | (have := this 5; omega) | (have := this 6; omega) | (have := this 7; omega)
          | (have := this 8; omega) | (have := this 9; omega)

theorem encNormalization_pos (ok : Bytes → Option Bool) (n : Normalization) : 1 ≤ (encNormalization ok n).length := by
  have := encNormalization_depth ok n; omega

theorem decNormalization_enc (ok : Bytes → Option Bool) (n : Normalization) :
    ∀ (fuel : Nat) (r : Bytes), normOk ok n → (encNormalization ok n).length < 2 ^ 64 → ndepth n < fuel →
      decNormalization ok fuel (encNormalization ok n ++ r) = some (n, r) := by
  induction n with
  | unicode s =>
    intro fuel r _ _ hf
    obtain ⟨f, rfl⟩ : ∃ f, fuel = f + 1 := ⟨fuel - 1, by omega⟩
    simp [encNormalization, decNormalization, List.append_assoc, decVarint_u32 0 (by decide), unicodeScheme_law s r]
  | nmt =>
    intro fuel r _ _ hf
    obtain ⟨f, rfl⟩ : ∃ f, fuel = f + 1 := ⟨fuel - 1, by omega⟩
    simp [encNormalization, decNormalization, decVarint_u32 1 (by decide)]
  | caseFold u =>
    intro fuel r _ _ hf
    obtain ⟨f, rfl⟩ : ∃ f, fuel = f + 1 := ⟨fuel - 1, by omega⟩
    simp [encNormalization, decNormalization, List.append_assoc, decVarint_u32 2 (by decide), bool_law u r]
  | append s =>
    intro fuel r hn hs hf
    obtain ⟨f, rfl⟩ : ∃ f, fuel = f + 1 := ⟨fuel - 1, by omega⟩
    have hs' : (Codec.str.enc s).length < 2 ^ 64 := by
      simp only [encNormalization, List.length_append] at hs; omega
    simp [encNormalization, decNormalization, List.append_assoc, decVarint_u32 3 (by decide), str_law_of_small s hs' hn r]
  | prepend s =>
    intro fuel r hn hs hf
    obtain ⟨f, rfl⟩ : ∃ f, fuel = f + 1 := ⟨fuel - 1, by omega⟩
    have hs' : (Codec.str.enc s).length < 2 ^ 64 := by
      simp only [encNormalization, List.length_append] at hs; omega
    simp [encNormalization, decNormalization, List.append_assoc, decVarint_u32 4 (by decide), str_law_of_small s hs' hn r]
  | extend c l rt p =>
    intro fuel r hn hs hf
    obtain ⟨f, rfl⟩ : ∃ f, fuel = f + 1 := ⟨fuel - 1, by omega⟩
    simp [encNormalization, decNormalization, List.append_assoc, decVarint_u32 5 (by decide), char_law c _,
      nat32_law l hn.1 _, nat32_law rt hn.2 _, bool_law p r]
  | strip c l rt =>
    intro fuel r hn hs hf
    obtain ⟨f, rfl⟩ : ∃ f, fuel = f + 1 := ⟨fuel - 1, by omega⟩
    simp [encNormalization, decNormalization, List.append_assoc, decVarint_u32 6 (by decide), char_law c _,
      nat32_law l hn.1 _, nat32_law rt hn.2 r]
  | collapse c =>
    intro fuel r hn hs hf
    obtain ⟨f, rfl⟩ : ∃ f, fuel = f + 1 := ⟨fuel - 1, by omega⟩
    simp [encNormalization, decNormalization, List.append_assoc, decVarint_u32 7 (by decide), char_law c r]
  | replace p rep =>
    intro fuel r hn hs hf
    obtain ⟨f, rfl⟩ : ∃ f, fuel = f + 1 := ⟨fuel - 1, by omega⟩
    have hs1 : ((replacePattern "NormalizationReplacePattern" ok).enc p).length < 2 ^ 64 := by
      simp only [encNormalization, List.length_append] at hs; omega
    have hs2 : (Codec.str.enc rep).length < 2 ^ 64 := by
      simp only [encNormalization, List.length_append] at hs; omega
    simp [encNormalization, decNormalization, List.append_assoc, decVarint_u32 8 (by decide),
      replacePattern_law _ ok p hn.1 hs1 _, str_law_of_small rep hs2 hn.2 r]
  | charsMap m =>
    intro fuel r hn hs hf
    obtain ⟨f, rfl⟩ : ∃ f, fuel = f + 1 := ⟨fuel - 1, by omega⟩
    have hs1 : (charsMap.enc m).length < 2 ^ 64 := by
      simp only [encNormalization, List.length_append] at hs; omega
    simp [encNormalization, decNormalization, List.append_assoc, decVarint_u32 9 (by decide), charsMap_law m hs1 r]
  | conditional c i ih =>
    intro fuel r hn hs hf
    obtain ⟨f, rfl⟩ : ∃ f, fuel = f + 1 := ⟨fuel - 1, by omega⟩
    have hs1 : (encNormalization ok i).length < 2 ^ 64 := by
      simp only [encNormalization, List.length_append] at hs; omega
    have hf' : ndepth i < f := by simp only [ndepth] at hf; omega
    simp [encNormalization, decNormalization, List.append_assoc, decVarint_u32 10 (by decide), normCondition_law c _,
      ih f r hn hs1 hf']

theorem normalization_law (ok : Bytes → Option Bool) (n : Normalization) (hn : normOk ok n)
    (hs : ((normalization ok).enc n).length < 2 ^ 64) : LawAt (normalization ok) n := by
  intro r
  simp only [normalization] at hs ⊢
  apply decNormalization_enc ok n _ r hn hs
  have := encNormalization_depth ok n
  simp only [List.length_append]; omega

theorem normalization_pos (ok : Bytes → Option Bool) (n : Normalization) : 1 ≤ ((normalization ok).enc n).length :=
  encNormalization_pos ok n


/-! ## Split, Processing, Decoding -/

theorem split_law (ok : Bytes → Option Bool) (x : Split) (hx : splitOk ok x)
    (hs : ((DefCodec.split ok).enc x).length < 2 ^ 64) : LawAt (DefCodec.split ok) x := by
  unfold DefCodec.split at hs ⊢
  cases x with
  | pattern p b =>
    have hs1 : ((DefCodec.splitPattern ok).enc p).length < 2 ^ 64 := by
      simp only [Codec.enum, List.length_append] at hs; omega
    apply enum_law _ _ _ _ _ _ (by simp)
    intro r
    simp [List.append_assoc, splitPattern_law ok p b hx hs1 _, splitBehavior_law b r]
  | unicodeScript =>
    apply enum_law _ _ _ _ _ _ (by simp)
    intro r; simp

theorem split_pos (ok : Bytes → Option Bool) (x : Split) : 1 ≤ ((DefCodec.split ok).enc x).length :=
  enum_enc_pos _ _ _ _ _ _

theorem processing_law (x : Processing) (hx : processingOk x) : LawAt DefCodec.processing x := by
  unfold DefCodec.processing
  cases x with
  | strip id l rt =>
    apply enum_law _ _ _ _ _ _ (by simp)
    intro r
    simp [List.append_assoc, u32_law id _, nat32_law l hx.1 _, nat32_law rt hx.2 r]
  | collapse id =>
    apply enum_law _ _ _ _ _ _ (by simp)
    intro r
    simp [u32_law id r]
  | pad id n s d =>
    apply enum_law _ _ _ _ _ _ (by simp)
    intro r
    simp [List.append_assoc, u32_law id _, nat32_law n hx.1 _, nat32_law s hx.2 _, direction_law d r]
  | truncate n s d =>
    apply enum_law _ _ _ _ _ _ (by simp)
    intro r
    simp [List.append_assoc, nat32_law n hx.1 _, nat32_law s hx.2 _, direction_law d r]

theorem processing_pos (x : Processing) : 1 ≤ (DefCodec.processing.enc x).length :=
  enum_enc_pos _ _ _ _ _ _

theorem decoding_law (ok : Bytes → Option Bool) (x : Decoding) (hx : decodingOk ok x)
    (hs : ((DefCodec.decoding ok).enc x).length < 2 ^ 64) : LawAt (DefCodec.decoding ok) x := by
  unfold DefCodec.decoding at hs ⊢
  cases x with
  | extend c l rt p =>
    apply enum_law _ _ _ _ _ _ (by simp)
    intro r
    simp [List.append_assoc, char_law c _, nat32_law l hx.1 _, nat32_law rt hx.2 _, bool_law p r]
  | strip c l rt =>
    apply enum_law _ _ _ _ _ _ (by simp)
    intro r
    simp [List.append_assoc, char_law c _, nat32_law l hx.1 _, nat32_law rt hx.2 r]
  | collapse c =>
    apply enum_law _ _ _ _ _ _ (by simp)
    intro r
    simp [char_law c r]
  | replace p rep =>
    have hs1 : ((replacePattern "DecodingReplacePattern" ok).enc p).length < 2 ^ 64 := by
      simp only [Codec.enum, List.length_append] at hs; omega
    have hs2 : (Codec.str.enc rep).length < 2 ^ 64 := by
      simp only [Codec.enum, List.length_append] at hs; omega
    apply enum_law _ _ _ _ _ _ (by simp)
    intro r
    simp [List.append_assoc, replacePattern_law _ ok p hx.1 hs1 _, str_law_of_small rep hs2 hx.2 r]

theorem decoding_pos (ok : Bytes → Option Bool) (x : Decoding) : 1 ≤ ((DefCodec.decoding ok).enc x).length :=
  enum_enc_pos _ _ _ _ _ _

/-! ## Template, Token, SpecialToken -/

theorem template_law (t : Template) (hv : validUtf8 t.content = true) (hs : (template.enc t).length < 2 ^ 64) :
    LawAt template t := by
  unfold template at hs ⊢
  apply struct_law
  apply iso_law _ _ _ _ _ rfl
  apply pair_law_of_small _ _ _ _ hs
  · intro h; exact str_law_of_small _ h hv
  · intro _; exact insertionPosition_law _

theorem template_pos (t : Template) : 1 ≤ (template.enc t).length := by
  simp only [template, struct_enc, iso_enc, pair_enc, field_enc, List.length_append]
  have := str_enc_pos t.content; omega

theorem token_law (t : Id × Bytes) (hs : (token.enc t).length < 2 ^ 64) : LawAt token t := by
  unfold token at hs ⊢
  obtain ⟨i, b⟩ := t
  apply struct_law
  apply pair_law_of_small _ _ _ _ hs
  · intro _; exact u32_law i
  · intro h; exact bytes_law_of_small _ h

theorem token_pos (t : Id × Bytes) : 1 ≤ (token.enc t).length := by
  obtain ⟨i, b⟩ := t
  simp only [token, struct_enc, pair_enc, field_enc, List.length_append]
  have := u32_enc_pos i; omega

theorem specialToken_law (t : SpecialDef) (hi : ∀ i, t.ident = some i → validUtf8 i = true)
    (hs : (specialToken.enc t).length < 2 ^ 64) : LawAt specialToken t := by
  unfold specialToken at hs ⊢
  apply struct_law
  apply iso_law _ _ _ _ _ rfl
  apply pair_law_of_small _ _ _ _ hs
  · intro _; exact u32_law _
  intro hs
  apply pair_law_of_small _ _ _ _ hs
  · intro h; exact bytes_law_of_small _ h
  intro hs
  apply pair_law_of_small _ _ _ _ hs
  · intro _; exact specialKind_law _
  intro hs
  apply pair_law_of_small _ _ _ _ hs
  · intro h
    apply field_law
    apply option_law
    intro y hy
    apply str_law_of_small _ _ (hi y hy)
    simp only [field_enc, Codec.option, hy, List.length_cons] at h
    omega
  intro hs
  apply pair_law_of_small _ _ _ _ hs
  · intro _; exact f32bits_law _
  · intro _; exact bool_law _

theorem specialToken_pos (t : SpecialDef) : 1 ≤ (specialToken.enc t).length := by
  simp only [specialToken, struct_enc, iso_enc, pair_enc, field_enc, List.length_append]
  have := u32_enc_pos t.id; omega

/-! ## Model, Metadata, Configuration, Definition -/

theorem seq_token_law (v : List (Id × Bytes)) (hs : ((Codec.seq token).enc v).length < 2 ^ 64) :
    LawAt (Codec.seq token) v :=
  seq_law_of_small _ _ (fun x _ => token_pos x) hs (fun x _ h => token_law x h)

theorem seq_f32_law (v : List UInt32) (hs : ((Codec.seq Codec.f32bits).enc v).length < 2 ^ 64) :
    LawAt (Codec.seq Codec.f32bits) v :=
  seq_law_of_small _ _ (fun x _ => f32bits_enc_pos x) hs (fun x _ _ => f32bits_law x)

theorem model_law (m : ModelDef) (hm : ∀ v w, m = .wordPiece v w → natOk w)
    (hs : (model.enc m).length < 2 ^ 64) : LawAt model m := by
  unfold model at hs ⊢
  cases m with
  | bytePair v c =>
    have hs1 : ((Codec.seq token).enc v).length < 2 ^ 64 := by
      simp only [Codec.enum, List.length_append] at hs; omega
    apply enum_law _ _ _ _ _ _ (by simp)
    intro r
    simp [List.append_assoc, seq_token_law v hs1 _, bool_law c r]
  | unigram v sc =>
    have hs1 : ((Codec.seq token).enc v).length < 2 ^ 64 := by
      simp only [Codec.enum, List.length_append] at hs; omega
    have hs2 : ((Codec.seq Codec.f32bits).enc sc).length < 2 ^ 64 := by
      simp only [Codec.enum, List.length_append] at hs; omega
    apply enum_law _ _ _ _ _ _ (by simp)
    intro r
    simp [List.append_assoc, seq_token_law v hs1 _, seq_f32_law sc hs2 r]
  | wordPiece v w =>
    have hs1 : ((Codec.seq token).enc v).length < 2 ^ 64 := by
      simp only [Codec.enum, List.length_append] at hs; omega
    apply enum_law _ _ _ _ _ _ (by simp)
    intro r
    simp [List.append_assoc, seq_token_law v hs1 _, nat32_law w (hm v w rfl) r]

theorem metadata_law (m : Metadata) (hv : validUtf8 m.version = true) (hso : validUtf8 m.source = true)
    (he : ∀ e ∈ m.entries, validUtf8 e.1 = true ∧ validUtf8 e.2 = true)
    (hs : (metadata.enc m).length < 2 ^ 64) : LawAt metadata m := by
  unfold metadata at hs ⊢
  apply struct_law
  apply iso_law _ _ _ _ _ rfl
  apply pair_law_of_small _ _ _ _ hs
  · intro h; exact str_law_of_small _ h hv
  intro hs
  apply pair_law_of_small _ _ _ _ hs
  · intro h; exact str_law_of_small _ h hso
  · intro h
    apply field_law
    apply seq_law_of_small _ _ _ h
    · intro x hx hsx
      obtain ⟨a, b⟩ := x
      apply tuple_law
      apply pair_law_of_small _ _ _ _ hsx
      · intro h; exact str_law_of_small _ h (he _ hx).1
      · intro h; exact str_law_of_small _ h (he _ hx).2
    · intro x _
      obtain ⟨a, b⟩ := x
      simp only [tuple_enc, pair_enc, List.length_append]
      have := str_enc_pos a; omega

theorem configuration_law (ok : Bytes → Option Bool) (c : ConfigDef)
    (hn : ∀ n ∈ c.normalization, normOk ok n) (hsp : ∀ s ∈ c.split, splitOk ok s)
    (hp : ∀ p ∈ c.processing, processingOk p) (hd : ∀ x ∈ c.decoding, decodingOk ok x)
    (ht : ∀ t ∈ c.templates, validUtf8 t.content = true)
    (hs : ((configuration ok).enc c).length < 2 ^ 64) : LawAt (configuration ok) c := by
  unfold configuration at hs ⊢
  apply struct_law
  apply iso_law _ _ _ _ _ rfl
  apply pair_law_of_small _ _ _ _ hs
  · intro h
    exact seq_law_of_small _ _ (fun x _ => fallback_pos x) h (fun x _ _ => fallback_law x)
  intro hs
  apply pair_law_of_small _ _ _ _ hs
  · intro h
    exact seq_law_of_small _ _ (fun x _ => normalization_pos ok x) h (fun x hx h => normalization_law ok x (hn x hx) h)
  intro hs
  apply pair_law_of_small _ _ _ _ hs
  · intro h
    exact seq_law_of_small _ _ (fun x _ => split_pos ok x) h (fun x hx h => split_law ok x (hsp x hx) h)
  intro hs
  apply pair_law_of_small _ _ _ _ hs
  · intro h
    exact seq_law_of_small _ _ (fun x _ => processing_pos x) h (fun x hx _ => processing_law x (hp x hx))
  intro hs
  apply pair_law_of_small _ _ _ _ hs
  · intro h
    exact seq_law_of_small _ _ (fun x _ => decoding_pos ok x) h (fun x hx h => decoding_law ok x (hd x hx) h)
  · intro h
    exact seq_law_of_small _ _ (fun x _ => template_pos x) h (fun x hx h => template_law x (ht x hx) h)

theorem definition_law (ok : Bytes → Option Bool) (d : Definition) (h : Representable ok d) :
    LawAt (definition ok) d := by
  have hs := h.small
  unfold definition at hs ⊢
  apply struct_law
  apply iso_law _ _ _ _ _ rfl
  apply pair_law_of_small _ _ _ _ hs
  · intro hs; exact metadata_law _ h.version h.source h.entries hs
  intro hs
  apply pair_law_of_small _ _ _ _ hs
  · intro hs; exact model_law _ h.maxWord hs
  intro hs
  apply pair_law_of_small _ _ _ _ hs
  · intro hs
    exact seq_law_of_small _ _ (fun x _ => specialToken_pos x) hs (fun x hx hs => specialToken_law x (h.idents x hx) hs)
  · intro hs
    exact configuration_law ok _ h.norm h.split h.processing h.decoding h.templates hs

/-- Binary round trip of a representable definition. -/
theorem definition_roundtrip (ok : Bytes → Option Bool) (d : Definition) (h : Representable ok d) (rest : Bytes) :
    (definition ok).dec ((definition ok).enc d ++ rest) = some (d, rest) :=
  definition_law ok d h rest

theorem fromSlice_toVec (d : Definition) (h : Representable (fun _ => some true) d) :
    fromSlice (fun _ => some true) (toVec d) = some d := by
  have hm : Generated.MAGIC.length = 7 := rfl
  have hv : Generated.VERSION.length = 2 := rfl
  unfold fromSlice toVec
  simp only [List.length_append, List.append_assoc]
  rw [if_neg (by omega)]
  rw [List.take_left' rfl]
  simp only [bne_self_eq_false, Bool.false_eq_true, if_false]
  rw [List.drop_left' rfl, List.take_left' rfl]
  simp only [bne_self_eq_false, Bool.false_eq_true, if_false]
  rw [← List.append_assoc, List.drop_left' (by simp)]
  have := definition_roundtrip _ d h []
  rw [List.append_nil] at this
  rw [this]; rfl

theorem fromSlice_checks (ok : Bytes → Option Bool) (bs : Bytes)
    (h : bs.length < Generated.MAGIC.length + Generated.VERSION.length ∨ bs.take Generated.MAGIC.length ≠ Generated.MAGIC ∨
         (bs.drop Generated.MAGIC.length).take Generated.VERSION.length ≠ Generated.VERSION) :
    fromSlice ok bs = none := by
  unfold fromSlice
  simp only
  rcases h with h | h | h
  · rw [if_pos h]
  · split
    · rfl
    · rw [if_pos (by simpa using h)]
  · split
    · rfl
    · split
      · rfl
      · rw [if_pos (by simpa using h)]


/-! ## the layout description does not mention the regex oracle

(`rfl` at the level of `definition` makes the unifier compare the nested codecs argument by argument
and times out; the component lemmas below are each immediate.) -/

@[simp] theorem struct_shape (name : String) (c : Codec α) : (Codec.struct name c).shape = "struct " ++ name ++ "{" ++ c.shape ++ "}" := rfl
@[simp] theorem field_shape (name : String) (c : Codec α) : (Codec.field name c).shape = name ++ ":" ++ c.shape := rfl
@[simp] theorem tuple_shape (c : Codec α) : (Codec.tuple c).shape = "tuple(" ++ c.shape ++ ")" := rfl
@[simp] theorem iso_shape (c : Codec α) (to : α → β) (back : β → α) : (Codec.iso c to back).shape = c.shape := rfl
@[simp] theorem pair_shape (a : Codec α) (b : Codec β) : (Codec.pair a b).shape = a.shape ++ "," ++ b.shape := rfl
@[simp] theorem seq_shape (c : Codec α) : (Codec.seq c).shape = "seq(" ++ c.shape ++ ")" := rfl
@[simp] theorem enum_shape (name : String) (shapes : List String) (tagOf : α → Nat) (encV : α → Bytes)
    (decV : Nat → Bytes → Option (α × Bytes)) :
    (Codec.enum name shapes tagOf encV decV).shape = "enum " ++ name ++ "{" ++ ",".intercalate shapes ++ "}" := rfl

theorem replacePattern_shape (name : String) (ok ok' : Bytes → Option Bool) :
    (replacePattern name ok).shape = (replacePattern name ok').shape := rfl

theorem splitPattern_shape (ok ok' : Bytes → Option Bool) :
    (DefCodec.splitPattern ok).shape = (DefCodec.splitPattern ok').shape := rfl

theorem normalization_shape (ok ok' : Bytes → Option Bool) :
    (DefCodec.normalization ok).shape = (DefCodec.normalization ok').shape := by
  simp only [DefCodec.normalization]
  rw [replacePattern_shape _ ok ok']

theorem split_shape (ok ok' : Bytes → Option Bool) :
    (DefCodec.split ok).shape = (DefCodec.split ok').shape := by
  simp only [DefCodec.split, enum_shape]
  rw [splitPattern_shape ok ok']

theorem decoding_shape (ok ok' : Bytes → Option Bool) :
    (DefCodec.decoding ok).shape = (DefCodec.decoding ok').shape := by
  simp only [DefCodec.decoding, enum_shape]
  rw [replacePattern_shape _ ok ok']

theorem configuration_shape (ok ok' : Bytes → Option Bool) :
    (configuration ok).shape = (configuration ok').shape := by
  simp only [configuration, struct_shape, iso_shape, pair_shape, field_shape, seq_shape]
  rw [normalization_shape ok ok', split_shape ok ok', decoding_shape ok ok']

theorem definition_shape (ok ok' : Bytes → Option Bool) :
    (definition ok).shape = (definition ok').shape := by
  simp only [definition, struct_shape, iso_shape, pair_shape, field_shape, seq_shape]
  rw [configuration_shape ok ok']

end Kitoken.Proofs.Codec
