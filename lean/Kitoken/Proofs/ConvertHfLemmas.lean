/-
  Lemmas for C15 (continued): the vocabulary path of the Tokenizers converter (Kitoken/Model/ConvertHf.lean).
  - `lastWins`: a sublist of its input whose keys are pairwise different;
  - `dedupFirst`, `replaceByteRunes`, `postSteps`: nothing lost but duplicates, nothing invented, no duplicates;
  - `repairIds`: only ids change, changed ids are fresh;
  - sorting with a total preorder that is antisymmetric on the elements of the list does not depend on the
    order in which the elements arrive; applied to `uniLe`, `bpeLe`, `specialLe`;
  - the unigram scores follow the vocabulary.
  Core Lean only.
-/
import Kitoken.Spec.KeepsHf
import Kitoken.Proofs.CodecExport
import Kitoken.Proofs.F32OfNat
namespace Kitoken.Proofs.ConvertHf

open Kitoken Kitoken.Spec Kitoken.Convert

/-! ## general list facts -/

theorem eq_of_nodup_map {α β : Type} (f : α → β) : ∀ (l : List α), (l.map f).Nodup →
    ∀ a ∈ l, ∀ b ∈ l, f a = f b → a = b
  | [], _, a, ha, _, _, _ => by cases ha
  | x :: t, hnd, a, ha, b, hb, hab => by
    simp only [List.map_cons, List.nodup_cons, List.mem_map, not_exists, not_and] at hnd
    rcases List.mem_cons.mp ha with hax | hat
    · rcases List.mem_cons.mp hb with hbx | hbt
      · rw [hax, hbx]
      · subst hax; exact absurd hab.symm (hnd.1 b hbt)
    · rcases List.mem_cons.mp hb with hbx | hbt
      · subst hbx; exact absurd hab (hnd.1 a hat)
      · exact eq_of_nodup_map f t hnd.2 a hat b hbt hab

theorem filterMap_map_sublist {α β γ : Type} (f : α → Option β) (g : α → γ) (g' : β → γ)
    (hfg : ∀ a b, f a = some b → g' b = g a) : ∀ l : List α, ((l.filterMap f).map g').Sublist (l.map g)
  | [] => by simp
  | a :: t => by
    have ih := filterMap_map_sublist f g g' hfg t
    cases hfa : f a with
    | none => simp only [List.filterMap_cons, hfa, List.map_cons]; exact ih.trans (List.sublist_cons_self _ _)
    | some b =>
      simp only [List.filterMap_cons, hfa, List.map_cons, hfg a b hfa]
      exact ih.cons_cons _

/-! ## `lastWins` -/

theorem lastWins_sublist {α β : Type} [BEq α] : ∀ l : List (α × β), (lastWins l).Sublist l
  | [] => by simp [lastWins]
  | (k, v) :: rest => by
    have ih := lastWins_sublist rest
    unfold lastWins
    split
    · exact ih.trans (List.sublist_cons_self _ _)
    · exact ih.cons_cons _

theorem lastWins_keys_nodup {α β : Type} [BEq α] [LawfulBEq α] : ∀ l : List (α × β), ((lastWins l).map (·.1)).Nodup
  | [] => by simp [lastWins]
  | (k, v) :: rest => by
    have ih := lastWins_keys_nodup rest
    unfold lastWins
    split
    · exact ih
    · rename_i hany
      simp only [List.map_cons, List.nodup_cons, ih, and_true, List.mem_map, not_exists, not_and]
      intro e he hk
      apply hany
      exact List.any_eq_true.mpr ⟨e, (lastWins_sublist rest).subset he, by simp [hk]⟩

/-! ## `dedupFirst` -/

theorem dedupFirst_sublist : ∀ (l : List (Id × Bytes)) (seen : List Bytes), (dedupFirst l seen).Sublist l
  | [], _ => by simp [dedupFirst]
  | (id, b) :: rest, seen => by
    unfold dedupFirst
    split
    · exact (dedupFirst_sublist rest seen).trans (List.sublist_cons_self _ _)
    · exact (dedupFirst_sublist rest (b :: seen)).cons_cons _

theorem dedupFirst_not_seen : ∀ (l : List (Id × Bytes)) (seen : List Bytes), ∀ e ∈ dedupFirst l seen, e.2 ∉ seen
  | [], _ => by simp [dedupFirst]
  | (id, b) :: rest, seen => by
    unfold dedupFirst
    split
    · exact dedupFirst_not_seen rest seen
    · rename_i hc
      intro e he
      rcases List.mem_cons.mp he with rfl | he
      · simpa using hc
      · have := dedupFirst_not_seen rest (b :: seen) e he
        intro h; exact this (List.mem_cons_of_mem _ h)

theorem dedupFirst_nodup : ∀ (l : List (Id × Bytes)) (seen : List Bytes), ((dedupFirst l seen).map (·.2)).Nodup
  | [], _ => by simp [dedupFirst]
  | (id, b) :: rest, seen => by
    unfold dedupFirst
    split
    · exact dedupFirst_nodup rest seen
    · simp only [List.map_cons, List.nodup_cons, dedupFirst_nodup rest (b :: seen), and_true, List.mem_map,
        not_exists, not_and]
      intro e he hb
      exact dedupFirst_not_seen rest (b :: seen) e he (by simp [hb])

theorem dedupFirst_keeps : ∀ (l : List (Id × Bytes)) (seen : List Bytes), ∀ e ∈ l,
    e.2 ∈ seen ∨ ∃ e' ∈ dedupFirst l seen, e'.2 = e.2
  | [], _ => by simp
  | (id, b) :: rest, seen => by
    intro e he
    unfold dedupFirst
    rcases List.mem_cons.mp he with rfl | he
    · split
      · rename_i hc; left; simpa using hc
      · right; exact ⟨_, List.mem_cons_self, rfl⟩
    · split
      · exact dedupFirst_keeps rest seen e he
      · rcases dedupFirst_keeps rest (b :: seen) e he with h | ⟨e', he', h⟩
        · rcases List.mem_cons.mp h with h | h
          · right; exact ⟨_, List.mem_cons_self, h.symm⟩
          · left; exact h
        · right; exact ⟨e', List.mem_cons_of_mem _ he', h⟩

/-! ## `replaceByteRunes` -/

theorem runeOf_singleton (byte : UInt8) : runeOf [byte] = none := by
  simp [runeOf]

/-- What `replaceByteRunes` does to the bytes of one token. -/
def unrune (b : Bytes) : Bytes := match runeOf b with | some byte => [byte] | none => b

theorem replaceByteRunes_keeps (v : List (Id × Bytes)) : ∀ e ∈ v, ∃ e' ∈ replaceByteRunes v, e'.2 = unrune e.2 := by
  intro e he
  unfold replaceByteRunes unrune
  cases hr : runeOf e.2 with
  | none =>
    refine ⟨e, List.mem_filterMap.mpr ⟨e, he, ?_⟩, rfl⟩
    simp only [hr]
  | some byte =>
    by_cases hany : v.any (fun e => e.2 == [byte]) = true
    · obtain ⟨w, hw, hwb⟩ := List.any_eq_true.mp hany
      have hwb : w.2 = [byte] := by simpa using hwb
      refine ⟨w, List.mem_filterMap.mpr ⟨w, hw, ?_⟩, hwb⟩
      have : runeOf w.2 = none := by rw [hwb]; exact runeOf_singleton byte
      simp only [this]
    · refine ⟨(e.1, [byte]), List.mem_filterMap.mpr ⟨e, he, ?_⟩, rfl⟩
      simp only [hr, hany]
      rfl

theorem replaceByteRunes_no_invention (v : List (Id × Bytes)) :
    ∀ e' ∈ replaceByteRunes v, ∃ e ∈ v, e'.1 = e.1 ∧ e'.2 = unrune e.2 := by
  intro e' he'
  unfold replaceByteRunes at he'
  obtain ⟨e, he, hf⟩ := List.mem_filterMap.mp he'
  refine ⟨e, he, ?_⟩
  unfold unrune
  cases hr : runeOf e.2 with
  | none =>
    simp only [hr, Option.some.injEq] at hf
    subst hf; exact ⟨rfl, rfl⟩
  | some byte =>
    simp only [hr] at hf
    split at hf
    · cases hf
    · simp only [Option.some.injEq] at hf
      subst hf; exact ⟨rfl, rfl⟩

theorem replaceByteRunes_ids_sublist (v : List (Id × Bytes)) :
    ((replaceByteRunes v).map (·.1)).Sublist (v.map (·.1)) := by
  unfold replaceByteRunes
  apply filterMap_map_sublist
  intro a b hf
  cases hr : runeOf a.2 with
  | none =>
    simp only [hr, Option.some.injEq] at hf
    subst hf; rfl
  | some byte =>
    simp only [hr] at hf
    split at hf
    · cases hf
    · simp only [Option.some.injEq] at hf
      subst hf; rfl

/-! ## `postSteps` -/

theorem trueBytes_eq (bc br : Bool) (b : Bytes) :
    trueBytes bc br b = (if br then unrune (if bc then replaceByteChars b else b) else (if bc then replaceByteChars b else b)) := by
  unfold trueBytes unrune
  rfl

/-- The first rewrite (`replaceByteChars` on every token, or nothing). -/
def step1 (bc : Bool) (vocab : List (Id × Bytes)) : List (Id × Bytes) :=
  vocab.map fun e => (e.1, if bc then replaceByteChars e.2 else e.2)

theorem postSteps_eq (bc br : Bool) (vocab : List (Id × Bytes)) :
    postSteps bc br vocab = dedupFirst (if br then replaceByteRunes (step1 bc vocab) else step1 bc vocab) [] := by
  unfold postSteps step1
  cases bc <;> simp

theorem step2_keeps (bc br : Bool) (vocab : List (Id × Bytes)) :
    ∀ e ∈ vocab, ∃ e' ∈ (if br then replaceByteRunes (step1 bc vocab) else step1 bc vocab), e'.2 = trueBytes bc br e.2 := by
  intro e he
  have h1 : (e.1, if bc then replaceByteChars e.2 else e.2) ∈ step1 bc vocab :=
    List.mem_map.mpr ⟨e, he, rfl⟩
  rw [trueBytes_eq]
  cases br with
  | false => exact ⟨_, h1, rfl⟩
  | true =>
    simp only [if_true]
    exact replaceByteRunes_keeps _ _ h1

theorem step2_no_invention (bc br : Bool) (vocab : List (Id × Bytes)) :
    ∀ e' ∈ (if br then replaceByteRunes (step1 bc vocab) else step1 bc vocab),
      ∃ e ∈ vocab, e'.1 = e.1 ∧ e'.2 = trueBytes bc br e.2 := by
  intro e' he'
  have hstep1 : ∀ x ∈ step1 bc vocab, ∃ e ∈ vocab, x.1 = e.1 ∧ x.2 = (if bc then replaceByteChars e.2 else e.2) := by
    intro x hx
    obtain ⟨e, he, rfl⟩ := List.mem_map.mp hx
    exact ⟨e, he, rfl, rfl⟩
  cases br with
  | false =>
    simp only [Bool.false_eq_true, if_false] at he'
    obtain ⟨e, he, h1, h2⟩ := hstep1 e' he'
    exact ⟨e, he, h1, by rw [trueBytes_eq]; simpa using h2⟩
  | true =>
    simp only [if_true] at he'
    obtain ⟨x, hx, h1, h2⟩ := replaceByteRunes_no_invention _ e' he'
    obtain ⟨e, he, h3, h4⟩ := hstep1 x hx
    refine ⟨e, he, h1.trans h3, ?_⟩
    rw [trueBytes_eq, h2, h4]; simp

theorem postSteps_keeps (bc br : Bool) (vocab : List (Id × Bytes)) :
    ∀ e ∈ vocab, ∃ e' ∈ postSteps bc br vocab, e'.2 = trueBytes bc br e.2 := by
  intro e he
  obtain ⟨x, hx, hxb⟩ := step2_keeps bc br vocab e he
  rw [postSteps_eq]
  rcases dedupFirst_keeps _ [] x hx with h | ⟨e', he', h⟩
  · cases h
  · exact ⟨e', he', h.trans hxb⟩

theorem postSteps_no_invention (bc br : Bool) (vocab : List (Id × Bytes)) :
    ∀ e' ∈ postSteps bc br vocab, ∃ e ∈ vocab, e'.1 = e.1 ∧ e'.2 = trueBytes bc br e.2 := by
  intro e' he'
  rw [postSteps_eq] at he'
  exact step2_no_invention bc br vocab e' ((dedupFirst_sublist _ _).subset he')

theorem postSteps_nodup (bc br : Bool) (vocab : List (Id × Bytes)) :
    ((postSteps bc br vocab).map (·.2)).Nodup ∧ ((postSteps bc br vocab).map (·.1)).Sublist (vocab.map (·.1)) := by
  rw [postSteps_eq]
  refine ⟨dedupFirst_nodup _ _, ?_⟩
  refine ((dedupFirst_sublist _ _).map _).trans ?_
  have h1 : (step1 bc vocab).map (·.1) = vocab.map (·.1) := by
    simp [step1, List.map_map, Function.comp_def]
  cases br with
  | false => simp only [Bool.false_eq_true, if_false, h1]; exact List.Sublist.refl _
  | true =>
    simp only [if_true]
    exact h1 ▸ replaceByteRunes_ids_sublist (step1 bc vocab)

/-! ## `repairIds` -/

/-- The two ways one step of `repairIds` can go. -/
theorem repairIds_cons (vocab : List (Id × Bytes)) (sp : SpecialDef) (rest out : List SpecialDef) (maxId : Nat)
    (h : repairIds vocab (sp :: rest) maxId = .ok out) :
    (∃ l, repairIds vocab rest maxId = .ok l ∧ out = sp :: l) ∨
    (∃ l, repairIds vocab rest (maxId + 1) = .ok l ∧ out = { sp with id := UInt32.ofNat (maxId + 1) } :: l ∧
        maxId + 1 < 4294967296 ∧ ∃ e ∈ vocab, e.1 = sp.id ∧ e.2 ≠ sp.bytes) := by
  unfold repairIds at h
  split at h
  · rename_i id' b hfind
    have hmem := List.mem_of_find?_eq_some hfind
    have hid := List.find?_some hfind
    simp only [beq_iff_eq] at hid
    rw [List.mem_reverse] at hmem
    split at h
    · rename_i hne
      split at h
      · cases h
      · rename_i hlt
        right
        cases hr : repairIds vocab rest (maxId + 1) with
        | error e => rw [hr] at h; cases h
        | ok l =>
          rw [hr] at h
          simp only [Except.map] at h
          cases h
          exact ⟨l, rfl, rfl, by omega, (id', b), hmem, hid, by simpa using hne⟩
    · rename_i hne
      left
      cases hr : repairIds vocab rest maxId with
      | error e => rw [hr] at h; cases h
      | ok l =>
        rw [hr] at h
        simp only [Except.map] at h
        cases h
        exact ⟨l, rfl, rfl⟩
  · rename_i hfind
    left
    cases hr : repairIds vocab rest maxId with
    | error e => rw [hr] at h; cases h
    | ok l =>
      rw [hr] at h
      simp only [Except.map] at h
      cases h
      exact ⟨l, rfl, rfl⟩

theorem ofNat_toNat_lt (n : Nat) (h : n < 4294967296) : (UInt32.ofNat n).toNat = n := by
  simp [UInt32.toNat_ofNat']
  omega

theorem repairIds_spec (vocab : List (Id × Bytes)) (specials out : List SpecialDef) (maxId : Nat)
    (hmax : ∀ e ∈ vocab, e.1.toNat ≤ maxId)
    (h : repairIds vocab specials maxId = .ok out) :
    out.map (fun s => (s.bytes, s.kind, s.ident, s.score, s.extract)) =
      specials.map (fun s => (s.bytes, s.kind, s.ident, s.score, s.extract)) ∧
    ∀ i (hi : i < specials.length) (ho : i < out.length),
      ((∀ e ∈ vocab, e.1 = specials[i].id → e.2 = specials[i].bytes) → out[i].id = specials[i].id) ∧
      (out[i].id = specials[i].id ∨
        (maxId < out[i].id.toNat ∧ ∃ e ∈ vocab, e.1 = specials[i].id ∧ e.2 ≠ specials[i].bytes)) := by
  induction specials generalizing out maxId with
  | nil =>
    simp only [repairIds, Except.ok.injEq] at h
    subst h
    exact ⟨rfl, fun i hi => absurd hi (Nat.not_lt_zero _)⟩
  | cons sp rest ih =>
    rcases repairIds_cons vocab sp rest out maxId h with ⟨l, hl, rfl⟩ | ⟨l, hl, rfl, hlt, e, he, heid, heb⟩
    · obtain ⟨ih1, ih2⟩ := ih l maxId hmax hl
      refine ⟨by simp only [List.map_cons, ih1], ?_⟩
      intro i hi ho
      cases i with
      | zero => exact ⟨fun _ => rfl, Or.inl rfl⟩
      | succ i =>
        simp only [List.getElem_cons_succ]
        exact ih2 i (by simpa using hi) (by simpa using ho)
    · obtain ⟨ih1, ih2⟩ := ih l (maxId + 1) (fun e he => Nat.le_succ_of_le (hmax e he)) hl
      refine ⟨by simp only [List.map_cons, ih1], ?_⟩
      intro i hi ho
      cases i with
      | zero =>
        simp only [List.getElem_cons_zero]
        refine ⟨fun hall => absurd (hall e he heid) heb, Or.inr ⟨?_, e, he, heid, heb⟩⟩
        rw [ofNat_toNat_lt _ hlt]; omega
      | succ i =>
        simp only [List.getElem_cons_succ]
        obtain ⟨hA, hB⟩ := ih2 i (by simpa using hi) (by simpa using ho)
        refine ⟨hA, ?_⟩
        rcases hB with hB | ⟨hB1, hB2⟩
        · exact Or.inl hB
        · exact Or.inr ⟨by omega, hB2⟩

/-- The ids that the repair changed, in order. -/
def changedIds (specials out : List SpecialDef) : List Id :=
  ((specials.zip out).filter (fun p => p.1.id != p.2.id)).map (·.2.id)

theorem repairIds_changed_increasing (vocab : List (Id × Bytes)) (specials out : List SpecialDef) (maxId : Nat)
    (hmax : ∀ e ∈ vocab, e.1.toNat ≤ maxId)
    (h : repairIds vocab specials maxId = .ok out) :
    (changedIds specials out).Pairwise (fun a b => a.toNat < b.toNat) ∧
    ∀ x ∈ changedIds specials out, maxId < x.toNat := by
  induction specials generalizing out maxId with
  | nil =>
    simp only [repairIds, Except.ok.injEq] at h
    subst h
    simp [changedIds]
  | cons sp rest ih =>
    rcases repairIds_cons vocab sp rest out maxId h with ⟨l, hl, rfl⟩ | ⟨l, hl, rfl, hlt, e, he, heid, heb⟩
    · have : changedIds (sp :: rest) (sp :: l) = changedIds rest l := by
        simp [changedIds]
      rw [this]
      exact ih l maxId hmax hl
    · obtain ⟨ih1, ih2⟩ := ih l (maxId + 1) (fun e he => Nat.le_succ_of_le (hmax e he)) hl
      have hne : sp.id ≠ UInt32.ofNat (maxId + 1) := by
        intro hc
        have h1 := hmax e he
        rw [heid, hc, ofNat_toNat_lt _ hlt] at h1
        omega
      have : changedIds (sp :: rest) ({ sp with id := UInt32.ofNat (maxId + 1) } :: l) =
          UInt32.ofNat (maxId + 1) :: changedIds rest l := by
        have hne' : (sp.id != UInt32.ofNat (maxId + 1)) = true := bne_iff_ne.mpr hne
        simp only [changedIds, List.zip_cons_cons, List.filter_cons, hne', if_true, List.map_cons]
      rw [this]
      refine ⟨List.pairwise_cons.mpr ⟨?_, ih1⟩, ?_⟩
      · intro x hx
        rw [ofNat_toNat_lt _ hlt]
        exact ih2 x hx
      · intro x hx
        rcases List.mem_cons.mp hx with rfl | hx
        · rw [ofNat_toNat_lt _ hlt]; omega
        · have := ih2 x hx; omega

/-! Why `repairIds_fresh` speaks about the changed ids only. The first version of the statement,
    `((out.filter fun o => maxId < o.id.toNat).map (·.id)).Nodup`, also covers specials that the repair leaves
    alone, and those can carry any id above the vocabulary:
    (1) two untouched specials with the same id above `maxId`;
    (2) an untouched special whose id is `maxId + 1`, the id the repair hands to the first colliding special —
        in the converter: a special token placed right after the vocabulary, and another special whose id
        belongs to a vocabulary token with different bytes; after the repair both have the same id. -/

private def exA : SpecialDef := { id := 100, bytes := [1], kind := .control, ident := none, score := 0, extract := false }
private def exB : SpecialDef := { id := 100, bytes := [2], kind := .control, ident := none, score := 0, extract := false }
private def exC : SpecialDef := { id := 3, bytes := [9], kind := .control, ident := none, score := 0, extract := false }
private def exD : SpecialDef := { id := 6, bytes := [7], kind := .control, ident := none, score := 0, extract := false }

example : ∃ out, repairIds [] [exA, exB] 0 = .ok out ∧
    ¬ ((out.filter fun o => 0 < o.id.toNat).map (·.id)).Nodup :=
  ⟨[exA, exB], by rfl, by decide⟩

example : ∃ out, repairIds [(3, [1]), (5, [2])] [exC, exD] 5 = .ok out ∧
    ¬ ((out.filter fun o => 5 < o.id.toNat).map (·.id)).Nodup :=
  ⟨[{ exC with id := 6 }, exD], by rfl, by decide⟩

theorem repairIds_fresh (vocab : List (Id × Bytes)) (specials out : List SpecialDef) (maxId : Nat)
    (hmax : ∀ e ∈ vocab, e.1.toNat ≤ maxId)
    (h : repairIds vocab specials maxId = .ok out) :
    (((specials.zip out).filter (fun p => p.1.id != p.2.id)).map (·.2.id)).Nodup ∧
    ∀ x ∈ ((specials.zip out).filter (fun p => p.1.id != p.2.id)).map (·.2.id),
      maxId < x.toNat ∧ ∀ e ∈ vocab, e.1 ≠ x := by
  obtain ⟨h1, h2⟩ := repairIds_changed_increasing vocab specials out maxId hmax h
  refine ⟨?_, ?_⟩
  · refine List.Pairwise.imp ?_ h1
    intro a b hab heq
    rw [heq] at hab
    exact Nat.lt_irrefl _ hab
  · intro x hx
    refine ⟨h2 x hx, ?_⟩
    intro e he heq
    have := hmax e he
    have := h2 x hx
    rw [heq] at *
    omega

/-! ## sorting does not depend on the order of arrival -/

/-- Sorting does not depend on the order of arrival when the comparison is a total preorder that is
    antisymmetric on the elements that occur. -/
theorem mergeSort_perm_eq {α : Type} (le : α → α → Bool)
    (htrans : ∀ a b c, le a b = true → le b c = true → le a c = true)
    (htotal : ∀ a b, (le a b || le b a) = true)
    (l₁ l₂ : List α) (hp : l₁.Perm l₂)
    (hanti : ∀ a ∈ l₁, ∀ b ∈ l₁, le a b = true → le b a = true → a = b) :
    l₁.mergeSort le = l₂.mergeSort le := by
  have h1 := List.pairwise_mergeSort (le := le) htrans htotal l₁
  have h2 := List.pairwise_mergeSort (le := le) htrans htotal l₂
  have hperm : (l₁.mergeSort le).Perm (l₂.mergeSort le) :=
    (List.mergeSort_perm l₁ le).trans (hp.trans (List.mergeSort_perm l₂ le).symm)
  refine List.Perm.eq_of_pairwise (le := fun a b => le a b = true) ?_ h1 h2 hperm
  intro a b ha hb hab hba
  exact hanti a ((List.mergeSort_perm l₁ le).subset ha) b
    (hp.symm.subset ((List.mergeSort_perm l₂ le).subset hb)) hab hba

/-- The same comparison on the elements gives the same sorted list. -/
theorem mergeSort_congr {α : Type} (le le' : α → α → Bool) (l : List α)
    (h : ∀ a ∈ l, ∀ b ∈ l, le a b = le' a b) : l.mergeSort le = l.mergeSort le' := by
  have := List.map_mergeSort (f := id) (r := le) (s := le') (l := l) (by simpa using h)
  simpa using this

/-! ### comparisons built from integer keys -/

def keyLe {α : Type} (k : α → Int) (a b : α) : Bool := decide (k a ≤ k b)

def lexLe {α : Type} (k : α → Int) (le2 : α → α → Bool) (a b : α) : Bool :=
  if k a = k b then le2 a b else decide (k a < k b)

theorem keyLe_trans {α : Type} (k : α → Int) : ∀ a b c, keyLe k a b = true → keyLe k b c = true → keyLe k a c = true := by
  intro a b c; simp only [keyLe, decide_eq_true_eq]; omega

theorem keyLe_total {α : Type} (k : α → Int) : ∀ a b, (keyLe k a b || keyLe k b a) = true := by
  intro a b; simp only [keyLe, Bool.or_eq_true, decide_eq_true_eq]; omega

theorem keyLe_antisymm {α : Type} (k : α → Int) (a b : α) : keyLe k a b = true → keyLe k b a = true → k a = k b := by
  simp only [keyLe, decide_eq_true_eq]; omega

theorem lexLe_trans {α : Type} (k : α → Int) (le2 : α → α → Bool)
    (h2 : ∀ a b c, le2 a b = true → le2 b c = true → le2 a c = true) :
    ∀ a b c, lexLe k le2 a b = true → lexLe k le2 b c = true → lexLe k le2 a c = true := by
  intro a b c
  unfold lexLe
  intro hab hbc
  by_cases h1 : k a = k b <;> by_cases h3 : k b = k c
  · have h4 : k a = k c := h1.trans h3
    rw [if_pos h1] at hab; rw [if_pos h3] at hbc; rw [if_pos h4]
    exact h2 a b c hab hbc
  · have h4 : ¬ k a = k c := fun h => h3 (h1.symm.trans h)
    rw [if_neg h3] at hbc; rw [if_neg h4]
    simp only [decide_eq_true_eq] at hbc ⊢; omega
  · have h4 : ¬ k a = k c := fun h => h1 (h.trans h3.symm)
    rw [if_neg h1] at hab; rw [if_neg h4]
    simp only [decide_eq_true_eq] at hab ⊢; omega
  · rw [if_neg h1] at hab; rw [if_neg h3] at hbc
    simp only [decide_eq_true_eq] at hab hbc
    have h4 : ¬ k a = k c := by omega
    rw [if_neg h4]
    simp only [decide_eq_true_eq]; omega

theorem lexLe_total {α : Type} (k : α → Int) (le2 : α → α → Bool)
    (h2 : ∀ a b, (le2 a b || le2 b a) = true) :
    ∀ a b, (lexLe k le2 a b || lexLe k le2 b a) = true := by
  intro a b
  unfold lexLe
  by_cases h1 : k a = k b
  · simp only [h1, if_true]; exact h2 a b
  · have h1' : ¬ k b = k a := fun h => h1 h.symm
    simp only [h1, h1', if_false, Bool.or_eq_true, decide_eq_true_eq]; omega

theorem lexLe_antisymm {α : Type} (k : α → Int) (le2 : α → α → Bool) (a b : α) :
    lexLe k le2 a b = true → lexLe k le2 b a = true → k a = k b ∧ le2 a b = true ∧ le2 b a = true := by
  unfold lexLe
  by_cases h1 : k a = k b
  · simp only [h1, if_true]; exact fun x y => ⟨trivial, x, y⟩
  · have h1' : ¬ k b = k a := fun h => h1 h.symm
    simp only [h1, h1', if_false, decide_eq_true_eq]; omega

/-! ### `bytesLe` is a total order -/

theorem bytesLe_total : ∀ a b : Bytes, (bytesLe a b || bytesLe b a) = true
  | [], _ => by simp [bytesLe]
  | _ :: _, [] => by simp [bytesLe]
  | x :: xs, y :: ys => by
    have ih := bytesLe_total xs ys
    simp only [bytesLe, Bool.or_eq_true, Bool.and_eq_true, decide_eq_true_eq, beq_iff_eq, UInt8.lt_iff_toNat_lt,
      ← UInt8.toNat_inj] at ih ⊢
    by_cases hxy : x.toNat = y.toNat
    · rcases ih with ih | ih
      · left; right; exact ⟨hxy, ih⟩
      · right; right; exact ⟨hxy.symm, ih⟩
    · by_cases hlt : x.toNat < y.toNat
      · left; left; exact hlt
      · right; left; omega

theorem bytesLe_trans : ∀ a b c : Bytes, bytesLe a b = true → bytesLe b c = true → bytesLe a c = true
  | [], _, _ => by simp [bytesLe]
  | _ :: _, [], _ => by simp [bytesLe]
  | _ :: _, _ :: _, [] => by simp [bytesLe]
  | x :: xs, y :: ys, z :: zs => by
    have ih := bytesLe_trans xs ys zs
    simp only [bytesLe, Bool.or_eq_true, Bool.and_eq_true, decide_eq_true_eq, beq_iff_eq, UInt8.lt_iff_toNat_lt,
      ← UInt8.toNat_inj] at ih ⊢
    rintro (h1 | ⟨h1, h1'⟩) (h2 | ⟨h2, h2'⟩)
    · left; omega
    · left; omega
    · left; omega
    · right; exact ⟨by omega, ih h1' h2'⟩

theorem bytesLe_antisymm : ∀ a b : Bytes, bytesLe a b = true → bytesLe b a = true → a = b
  | [], [] => by simp
  | [], _ :: _ => by simp [bytesLe]
  | _ :: _, [] => by simp [bytesLe]
  | x :: xs, y :: ys => by
    have ih := bytesLe_antisymm xs ys
    simp only [bytesLe, Bool.or_eq_true, Bool.and_eq_true, decide_eq_true_eq, beq_iff_eq, UInt8.lt_iff_toNat_lt,
      List.cons.injEq, ← UInt8.toNat_inj] at ih ⊢
    rintro (h1 | ⟨h1, h1'⟩) (h2 | ⟨h2, h2'⟩)
    · omega
    · omega
    · omega
    · exact ⟨h1, ih h1' h2'⟩

/-! ## the three comparisons -/

/-! ### `uniLe` -/

theorem uniLe_eq : uniLe = lexLe (fun e => f32Key e.2) (keyLe fun e => (e.1.2 : Int)) := by
  funext a b
  simp only [uniLe, lexLe, keyLe, beq_iff_eq, Int.ofNat_le]

theorem uniLe_trans : ∀ a b c, uniLe a b = true → uniLe b c = true → uniLe a c = true := by
  rw [uniLe_eq]; exact lexLe_trans _ _ (keyLe_trans _)

theorem uniLe_total : ∀ a b, (uniLe a b || uniLe b a) = true := by
  rw [uniLe_eq]; exact lexLe_total _ _ (keyLe_total _)

theorem uniLe_antisymm (a b : (Bytes × Nat) × UInt32) (h1 : uniLe a b = true) (h2 : uniLe b a = true) :
    a.1.2 = b.1.2 := by
  rw [uniLe_eq] at h1 h2
  obtain ⟨_, h3, h4⟩ := lexLe_antisymm _ _ a b h1 h2
  have := keyLe_antisymm _ a b h3 h4
  exact Int.ofNat_inj.mp this

/-! ### `bpeLe` -/

theorem bpeLe_eq (rank : Bytes → Option Nat) :
    bpeLe rank = lexLe (fun e => if (rank e.2).isSome then 0 else 1)
      (lexLe (fun e => (((rank e.2).getD 0 : Nat) : Int)) (keyLe fun e => (e.1.toNat : Int))) := by
  funext a b
  unfold bpeLe lexLe keyLe
  cases ha : rank a.2 <;> cases hb : rank b.2 <;>
    simp [ha, hb, UInt32.le_iff_toNat_le, Int.ofNat_inj]

theorem bpeLe_trans (rank : Bytes → Option Nat) :
    ∀ a b c, bpeLe rank a b = true → bpeLe rank b c = true → bpeLe rank a c = true := by
  rw [bpeLe_eq]; exact lexLe_trans _ _ (lexLe_trans _ _ (keyLe_trans _))

theorem bpeLe_total (rank : Bytes → Option Nat) : ∀ a b, (bpeLe rank a b || bpeLe rank b a) = true := by
  rw [bpeLe_eq]; exact lexLe_total _ _ (lexLe_total _ _ (keyLe_total _))

theorem bpeLe_antisymm (rank : Bytes → Option Nat) (a b : Id × Bytes) (h1 : bpeLe rank a b = true)
    (h2 : bpeLe rank b a = true) : a.1 = b.1 := by
  rw [bpeLe_eq] at h1 h2
  obtain ⟨_, h3, h4⟩ := lexLe_antisymm _ _ a b h1 h2
  obtain ⟨_, h5, h6⟩ := lexLe_antisymm _ _ a b h3 h4
  have := keyLe_antisymm _ a b h5 h6
  exact UInt32.toNat_inj.mp (Int.ofNat_inj.mp this)

/-! ### `specialLe` on scores that are numbers -/

/-- `specialLe` without the escape for incomparable scores: kind, score, id, bytes. -/
def specialLeNum : SpecialDef → SpecialDef → Bool :=
  lexLe (fun s => (kindRank s.kind : Int)) (lexLe (fun s => f32Key s.score)
    (lexLe (fun s => (s.id.toNat : Int)) (fun a b => bytesLe a.bytes b.bytes)))

theorem specialLe_eq_num (a b : SpecialDef) (ha : f32IsNaN a.score = false) (hb : f32IsNaN b.score = false) :
    specialLe a b = specialLeNum a b := by
  unfold specialLe specialLeNum lexLe
  simp only [ha, hb, Bool.not_false, Bool.and_self, Bool.true_and, bne_iff_ne, ne_eq, ite_not, Int.ofNat_inj,
    Int.ofNat_lt, UInt32.toNat_inj, UInt32.lt_iff_toNat_lt]

theorem specialLeNum_trans : ∀ a b c, specialLeNum a b = true → specialLeNum b c = true → specialLeNum a c = true :=
  lexLe_trans _ _ (lexLe_trans _ _ (lexLe_trans _ _ (fun a b c => bytesLe_trans a.bytes b.bytes c.bytes)))

theorem specialLeNum_total : ∀ a b, (specialLeNum a b || specialLeNum b a) = true :=
  lexLe_total _ _ (lexLe_total _ _ (lexLe_total _ _ (fun a b => bytesLe_total a.bytes b.bytes)))

theorem specialLeNum_antisymm (a b : SpecialDef) (h1 : specialLeNum a b = true) (h2 : specialLeNum b a = true) :
    a.bytes = b.bytes := by
  obtain ⟨_, h3, h4⟩ := lexLe_antisymm _ _ a b h1 h2
  obtain ⟨_, h5, h6⟩ := lexLe_antisymm _ _ a b h3 h4
  obtain ⟨_, h7, h8⟩ := lexLe_antisymm _ _ a b h5 h6
  exact bytesLe_antisymm _ _ h7 h8

/-! ## the converters -/

/-! ### the specials -/

/-- The special tokens as they leave the hash map, sorted. -/
def hfSpecials (added : List AddedToken) (unkToken : Option Bytes) (unkId : Option Id)
    (ps : List SpecialDef → List SpecialDef) : List SpecialDef :=
  (ps ((getSpecials added unkToken unkId).map (·.2))).mergeSort specialLe

theorem getSpecials_mem (added : List AddedToken) (unkToken : Option Bytes) (unkId : Option Id) :
    ∀ e ∈ getSpecials added unkToken unkId, e.2.bytes = e.1 ∧ ∃ i, i < added.length ∧ e.2.score = f32OfNat i := by
  intro e he
  unfold getSpecials at he
  have := (lastWins_sublist _).subset he
  obtain ⟨⟨a, i⟩, hai, rfl⟩ := List.mem_map.mp this
  refine ⟨rfl, i, ?_, rfl⟩
  have := List.mem_zipIdx hai
  omega

theorem getSpecials_bytes_nodup (added : List AddedToken) (unkToken : Option Bytes) (unkId : Option Id) :
    (((getSpecials added unkToken unkId).map (·.2)).map (·.bytes)).Nodup := by
  have h1 : ((getSpecials added unkToken unkId).map (·.1)).Nodup := lastWins_keys_nodup _
  have h2 : ((getSpecials added unkToken unkId).map (·.2)).map (·.bytes) = (getSpecials added unkToken unkId).map (·.1) := by
    rw [List.map_map]
    apply List.map_congr_left
    intro e he
    exact (getSpecials_mem added unkToken unkId e he).1
  rw [h2]; exact h1

theorem hfSpecials_order_independent (added : List AddedToken) (unkToken : Option Bytes) (unkId : Option Id)
    (ps ps' : List SpecialDef → List SpecialDef) (hps : ∀ l, (ps l).Perm l) (hps' : ∀ l, (ps' l).Perm l) :
    hfSpecials added unkToken unkId ps = hfSpecials added unkToken unkId ps' := by
  unfold hfSpecials
  generalize hL : (getSpecials added unkToken unkId).map (·.2) = L
  have hnan : ∀ s ∈ L, f32IsNaN s.score = false := by
    intro s hs
    rw [← hL] at hs
    obtain ⟨e, he, rfl⟩ := List.mem_map.mp hs
    obtain ⟨_, i, _, hsc⟩ := getSpecials_mem added unkToken unkId e he
    rw [hsc]; exact Kitoken.Proofs.F32.f32OfNat_not_nan i
  have hnd : (L.map (·.bytes)).Nodup := by rw [← hL]; exact getSpecials_bytes_nodup added unkToken unkId
  have hcongr : ∀ X : List SpecialDef, X.Perm L → X.mergeSort specialLe = X.mergeSort specialLeNum := by
    intro X hX
    apply mergeSort_congr
    intro a ha b hb
    exact specialLe_eq_num a b (hnan a (hX.subset ha)) (hnan b (hX.subset hb))
  rw [hcongr _ (hps L), hcongr _ (hps' L)]
  apply mergeSort_perm_eq _ specialLeNum_trans specialLeNum_total _ _ ((hps L).trans (hps' L).symm)
  intro a ha b hb hab hba
  exact eq_of_nodup_map (·.bytes) L hnd a ((hps L).subset ha) b ((hps L).subset hb)
    (specialLeNum_antisymm a b hab hba)



/-! ### Unigram -/

/-- The pieces that are not special tokens, as `((text, position), score)`, before the hash order. -/
def uniEntries (vocab : List (Bytes × UInt32)) (added : List AddedToken) (unkId : Option Id) :
    List ((Bytes × Nat) × UInt32) :=
  ((lastWins (vocab.zipIdx.map fun ((b, s), i) => (b, (i, s)))).filter fun e =>
      !((getSpecials added none unkId).any fun s => s.1 == e.1)).map fun (b, (i, s)) => ((b, i), s)

def uniToks (sorted : List ((Bytes × Nat) × UInt32)) : List (Id × Bytes) :=
  sorted.map fun ((b, i), _) => (UInt32.ofNat i, b)

def uniScoreOf (sorted : List ((Bytes × Nat) × UInt32)) (id : Id) : UInt32 :=
  ((sorted.reverse.find? fun e => UInt32.ofNat e.1.2 == id).map (·.2)).getD 0

/-- The result of the unigram arm from the sorted pieces and the sorted specials. -/
def uniOut (bc br : Bool) (sorted : List ((Bytes × Nat) × UInt32)) (specials : List SpecialDef) : HfOut :=
  { vocab := postSteps bc br (uniToks sorted),
    scores := (postSteps bc br (uniToks sorted)).map fun e => uniScoreOf sorted e.1,
    specials := specials }

/-- The check that the unknown id is one of the specials. -/
def uniUnkMissing (added : List AddedToken) (unkId : Option Id) : Bool :=
  match unkId with
  | some u => !((getSpecials added none unkId).any fun s => s.2.id == u)
  | none => false

theorem convertHfUnigram_eq (vocab : List (Bytes × UInt32)) (added : List AddedToken) (unkId : Option Id)
    (br bc : Bool) (pv : List ((Bytes × Nat) × UInt32) → List ((Bytes × Nat) × UInt32))
    (ps : List SpecialDef → List SpecialDef) :
    convertHfUnigram vocab added unkId br bc pv ps =
      if uniUnkMissing added unkId then .error .unknownNotInSpecials
      else .ok (uniOut bc br ((pv (uniEntries vocab added unkId)).mergeSort uniLe) (hfSpecials added none unkId ps)) := rfl

/-- Every entry is a piece of the source at its position; positions are pairwise different. -/
theorem uniEntries_sublist (vocab : List (Bytes × UInt32)) (added : List AddedToken) (unkId : Option Id) :
    (uniEntries vocab added unkId).Sublist (vocab.zipIdx.map fun ((b, s), i) => ((b, i), s)) := by
  unfold uniEntries
  have h1 := (List.filter_sublist (p := fun e : Bytes × (Nat × UInt32) =>
      !((getSpecials added none unkId).any fun s => s.1 == e.1))
      (l := lastWins (vocab.zipIdx.map fun ((b, s), i) => (b, (i, s))))).trans (lastWins_sublist _)
  have h2 := h1.map (fun (e : Bytes × (Nat × UInt32)) => ((e.1, e.2.1), e.2.2))
  rw [List.map_map] at h2
  exact h2

theorem uniEntries_idx_nodup (vocab : List (Bytes × UInt32)) (added : List AddedToken) (unkId : Option Id) :
    ((uniEntries vocab added unkId).map (·.1.2)).Nodup := by
  refine List.Nodup.sublist ((uniEntries_sublist vocab added unkId).map _) ?_
  rw [List.map_map]
  have : (vocab.zipIdx.map ((fun x : (Bytes × Nat) × UInt32 => x.1.2) ∘ fun x : (Bytes × UInt32) × Nat => ((x.1.1, x.2), x.1.2)))
      = vocab.zipIdx.map (·.2) := by
    apply List.map_congr_left; intro x _; rfl
  rw [this, List.zipIdx_map_snd]
  exact List.nodup_range' ..

theorem uniEntries_mem (vocab : List (Bytes × UInt32)) (added : List AddedToken) (unkId : Option Id) :
    ∀ e ∈ uniEntries vocab added unkId, vocab[e.1.2]? = some (e.1.1, e.2) := by
  intro e he
  have := (uniEntries_sublist vocab added unkId).subset he
  obtain ⟨⟨⟨b, s⟩, i⟩, hx, rfl⟩ := List.mem_map.mp this
  obtain ⟨h1, h2⟩ := List.mem_zipIdx' hx
  simp only at h1 h2 ⊢
  rw [List.getElem?_eq_getElem h1, h2]

theorem hf_unigram_order_independent (vocab : List (Bytes × UInt32)) (added : List AddedToken) (unkId : Option Id)
    (br bc : Bool)
    (pv pv' : List ((Bytes × Nat) × UInt32) → List ((Bytes × Nat) × UInt32)) (hpv : ∀ l, (pv l).Perm l) (hpv' : ∀ l, (pv' l).Perm l)
    (ps ps' : List SpecialDef → List SpecialDef) (hps : ∀ l, (ps l).Perm l) (hps' : ∀ l, (ps' l).Perm l)
    (_hsc : ∀ e ∈ vocab, f32IsNaN e.2 = false) :
    (convertHfUnigram vocab added unkId br bc pv ps).map (fun o => (o.vocab, o.scores, o.specials)) =
    (convertHfUnigram vocab added unkId br bc pv' ps').map (fun o => (o.vocab, o.scores, o.specials)) := by
  have h1 : (pv (uniEntries vocab added unkId)).mergeSort uniLe = (pv' (uniEntries vocab added unkId)).mergeSort uniLe := by
    apply mergeSort_perm_eq _ uniLe_trans uniLe_total _ _ ((hpv _).trans (hpv' _).symm)
    intro a ha b hb hab hba
    exact eq_of_nodup_map (·.1.2) _ (uniEntries_idx_nodup vocab added unkId) a ((hpv _).subset ha) b
      ((hpv _).subset hb) (uniLe_antisymm a b hab hba)
  rw [convertHfUnigram_eq, convertHfUnigram_eq, h1, hfSpecials_order_independent added none unkId ps ps' hps hps']

/-! ### the scores follow the vocabulary (F22) -/


theorem hf_unigram_scores_aligned (vocab : List (Bytes × UInt32)) (added : List AddedToken) (unkId : Option Id)
    (br bc : Bool) (pv : List ((Bytes × Nat) × UInt32) → List ((Bytes × Nat) × UInt32)) (hpv : ∀ l, (pv l).Perm l)
    (ps : List SpecialDef → List SpecialDef) (out : HfOut)
    (h : convertHfUnigram vocab added unkId br bc pv ps = .ok out) (hn : vocab.length < 4294967296) :
    out.scores.length = out.vocab.length ∧
    ∀ i (hi : i < out.vocab.length) (hs : i < out.scores.length),
      ∃ b, vocab[(out.vocab[i]).1.toNat]? = some (b, out.scores[i]) := by
  rw [convertHfUnigram_eq] at h
  cases hc : uniUnkMissing added unkId
  all_goals rw [hc] at h
  case true => cases h
  simp only [Bool.false_eq_true, if_false, Except.ok.injEq] at h
  subst h
  generalize hS : (pv (uniEntries vocab added unkId)).mergeSort uniLe = sorted
  have hperm : sorted.Perm (uniEntries vocab added unkId) := by
    rw [← hS]; exact (List.mergeSort_perm _ _).trans (hpv _)
  have hmem : ∀ e ∈ sorted, vocab[e.1.2]? = some (e.1.1, e.2) :=
    fun e he => uniEntries_mem vocab added unkId e (hperm.subset he)
  have hlt : ∀ e ∈ sorted, e.1.2 < 4294967296 := by
    intro e he
    have := hmem e he
    have := (List.getElem?_eq_some_iff.mp this).1
    omega
  have hnd : (sorted.map (·.1.2)).Nodup := (hperm.map _).nodup_iff.mpr (uniEntries_idx_nodup vocab added unkId)
  refine ⟨by simp [uniOut], ?_⟩
  intro i hi hs
  have hsc : (uniOut bc br sorted (hfSpecials added none unkId ps)).scores[i] =
      uniScoreOf sorted ((uniOut bc br sorted (hfSpecials added none unkId ps)).vocab[i]).1 := by
    simp only [uniOut, List.getElem_map]
  rw [hsc]
  have hOi : (uniOut bc br sorted (hfSpecials added none unkId ps)).vocab[i] ∈ postSteps bc br (uniToks sorted) :=
    List.getElem_mem hi
  generalize (uniOut bc br sorted (hfSpecials added none unkId ps)).vocab[i] = o at hOi ⊢
  obtain ⟨t, ht, hid, _⟩ := postSteps_no_invention bc br _ _ hOi
  unfold uniToks at ht
  obtain ⟨e, he, rfl⟩ := List.mem_map.mp ht
  simp only at hid
  rw [hid, ofNat_toNat_lt _ (hlt e he)]
  unfold uniScoreOf
  cases hf : sorted.reverse.find? (fun x => UInt32.ofNat x.1.2 == UInt32.ofNat e.1.2) with
  | none =>
    have := List.find?_eq_none.mp hf e (List.mem_reverse.mpr he)
    simp at this
  | some x =>
    have hx : x ∈ sorted := List.mem_reverse.mp (List.mem_of_find?_eq_some hf)
    have hxe := List.find?_some hf
    simp only [beq_iff_eq] at hxe
    have hidx : x.1.2 = e.1.2 := by
      have := congrArg UInt32.toNat hxe
      rwa [ofNat_toNat_lt _ (hlt x hx), ofNat_toNat_lt _ (hlt e he)] at this
    have : x = e := eq_of_nodup_map (·.1.2) sorted hnd x hx e he hidx
    subst this
    exact ⟨x.1.1, by simpa using hmem x hx⟩

/-! ### byte-pair -/


/-- The tokens that are not special tokens, as `(id, text)`, before the hash order. -/
def bpeEntries (vocab : List (Bytes × Id)) (added : List AddedToken) (unkToken : Option Bytes) : List (Id × Bytes) :=
  ((lastWins vocab).filter fun e => !((getSpecials added unkToken none).any fun s => s.1 == e.1)).map
    fun (b, id) => (id, b)

/-- The merge index of a token text. -/
def bpeRank (merges : List Bytes) (b : Bytes) : Option Nat :=
  ((lastWins merges.zipIdx).find? fun e => e.1 == b).map (·.2)

/-- The check that the unknown token is one of the specials. -/
def bpeUnkMissing (added : List AddedToken) (unkToken : Option Bytes) : Bool :=
  match unkToken with
  | some u => !((getSpecials added unkToken none).any fun s => s.1 == u)
  | none => false

/-- The result of the byte-pair arm from the sorted tokens and the sorted specials. -/
def bpeOut (bc br : Bool) (sorted : List (Id × Bytes)) (specials : List SpecialDef) : Except HfError HfOut :=
  match repairIds sorted specials (((sorted.map (·.1.toNat)) ++ (specials.map (·.id.toNat))).foldl max 0) with
  | .error e => .error e
  | .ok specials' => .ok { vocab := postSteps bc br sorted, specials := specials' }

theorem convertHfBpe_eq (vocab : List (Bytes × Id)) (merges : List Bytes) (added : List AddedToken)
    (unkToken : Option Bytes) (bc br : Bool)
    (pv : List (Id × Bytes) → List (Id × Bytes)) (ps : List SpecialDef → List SpecialDef) :
    convertHfBpe vocab merges added unkToken bc br pv ps =
      if bpeUnkMissing added unkToken then .error .unknownNotInSpecials
      else bpeOut bc br ((pv (bpeEntries vocab added unkToken)).mergeSort (bpeLe (bpeRank merges)))
        (hfSpecials added unkToken none ps) := rfl

theorem bpeEntries_ids_nodup (vocab : List (Bytes × Id)) (added : List AddedToken) (unkToken : Option Bytes)
    (hids : DistinctIds ((lastWins vocab).map fun e => (e.2, e.1))) :
    ((bpeEntries vocab added unkToken).map (·.1)).Nodup := by
  unfold DistinctIds at hids
  refine List.Nodup.sublist ?_ hids
  unfold bpeEntries
  exact (List.filter_sublist.map _).map _

theorem hf_bpe_order_independent (vocab : List (Bytes × Id)) (merges : List Bytes) (added : List AddedToken)
    (unkToken : Option Bytes) (bc br : Bool)
    (pv pv' : List (Id × Bytes) → List (Id × Bytes)) (hpv : ∀ l, (pv l).Perm l) (hpv' : ∀ l, (pv' l).Perm l)
    (ps ps' : List SpecialDef → List SpecialDef) (hps : ∀ l, (ps l).Perm l) (hps' : ∀ l, (ps' l).Perm l)
    (hids : DistinctIds ((lastWins vocab).map fun e => (e.2, e.1))) :
    (convertHfBpe vocab merges added unkToken bc br pv ps).map (fun o => (o.vocab, o.specials)) =
    (convertHfBpe vocab merges added unkToken bc br pv' ps').map (fun o => (o.vocab, o.specials)) := by
  have h1 : (pv (bpeEntries vocab added unkToken)).mergeSort (bpeLe (bpeRank merges)) =
      (pv' (bpeEntries vocab added unkToken)).mergeSort (bpeLe (bpeRank merges)) := by
    apply mergeSort_perm_eq _ (bpeLe_trans _) (bpeLe_total _) _ _ ((hpv _).trans (hpv' _).symm)
    intro a ha b hb hab hba
    exact eq_of_nodup_map (·.1) _ (bpeEntries_ids_nodup vocab added unkToken hids) a ((hpv _).subset ha) b
      ((hpv _).subset hb) (bpeLe_antisymm _ a b hab hba)
  rw [convertHfBpe_eq, convertHfBpe_eq, h1, hfSpecials_order_independent added unkToken none ps ps' hps hps']

end Kitoken.Proofs.ConvertHf
