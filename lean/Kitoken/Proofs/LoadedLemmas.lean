/-
  Lemmas behind C18c: a tokenizer accepted by `Tokenizer.new` (the model of `Kitoken::new`) satisfies the
  well-formedness hypotheses of the totality theorems.  General facts about folding `insert` over a list
  into a `Std.HashMap`, about `maxLen` / `minLen`, then the three encoder cases and the special tokens.
-/
import Kitoken.Model.Init
import Kitoken.Theorems.EncUni
import Kitoken.Proofs.TotalityLemmas

namespace Kitoken.C18

open Kitoken Kitoken.Spec

/-- What a definition from a well-formed source satisfies beyond what `Kitoken::new` checks itself: no empty
    special or vocabulary text, no vocabulary id equal to the reserved value `u32::MAX`, fewer than 2^32 entries
    (any definition that fits in memory), and configuration strings that are valid UTF-8 (they are Rust `String`s). -/
structure LoadableWF (d : Definition) : Prop where
  specials_nonempty : ∀ s ∈ d.specials, s.bytes ≠ []
  tokens_nonempty : ∀ e ∈ d.model.vocab, e.2 ≠ []
  ids_valid : ∀ e ∈ d.model.vocab, e.1 ≠ INVALID
  size : d.model.vocab.length ≤ MAXR
  norm_literals : ∀ n ∈ d.config.normalization, NormLiteralsValid n
  split_literals : ∀ s ∈ d.config.split, SplitLiteralsValid s

end Kitoken.C18

namespace Kitoken.Proofs.Loaded

open Kitoken Kitoken.Spec Kitoken.C18 Std

/-! ### Folding `insert` over a list -/

section Fold

variable {α κ β : Type} [BEq κ] [Hashable κ] [LawfulBEq κ] [LawfulHashable κ]

/-- Every binding of the fold was in the initial map or was inserted from a list element. -/
theorem fold_get (f : HashMap κ β → α → HashMap κ β) (k : α → κ) (v : α → β)
    (hf : ∀ m x, f m x = m.insert (k x) (v x)) (l : List α) (init : HashMap κ β) (key : κ) (val : β)
    (h : (l.foldl f init)[key]? = some val) :
    init[key]? = some val ∨ ∃ x ∈ l, k x = key ∧ v x = val := by
  induction l generalizing init with
  | nil => exact Or.inl h
  | cons x t ih =>
    rw [List.foldl_cons] at h
    rcases ih (f init x) h with h1 | ⟨y, hy, hk, hv⟩
    · rw [hf, HashMap.getElem?_insert] at h1
      by_cases hk : (k x == key) = true
      · rw [if_pos hk] at h1
        exact Or.inr ⟨x, List.mem_cons_self, eq_of_beq hk, Option.some.inj h1⟩
      · rw [if_neg hk] at h1
        exact Or.inl h1
    · exact Or.inr ⟨y, List.mem_cons_of_mem _ hy, hk, hv⟩

/-- From an empty map: every binding comes from a list element. -/
theorem fold_get_empty (f : HashMap κ β → α → HashMap κ β) (k : α → κ) (v : α → β)
    (hf : ∀ m x, f m x = m.insert (k x) (v x)) (l : List α) (key : κ) (val : β)
    (h : (l.foldl f (∅ : HashMap κ β))[key]? = some val) :
    ∃ x ∈ l, k x = key ∧ v x = val := by
  rcases fold_get f k v hf l ∅ key val h with h1 | h1
  · rw [HashMap.getElem?_empty] at h1
    cases h1
  · exact h1

/-- Every key of the fold from an empty map is the key of a list element. -/
theorem fold_keys_empty (f : HashMap κ β → α → HashMap κ β) (k : α → κ) (v : α → β)
    (hf : ∀ m x, f m x = m.insert (k x) (v x)) (l : List α) (key : κ)
    (h : key ∈ (l.foldl f (∅ : HashMap κ β)).keys) :
    ∃ x ∈ l, k x = key := by
  rw [HashMap.mem_keys, HashMap.mem_iff_isSome_getElem?] at h
  cases hv : (l.foldl f (∅ : HashMap κ β))[key]? with
  | none => rw [hv] at h; cases h
  | some val =>
    obtain ⟨x, hx, hk, _⟩ := fold_get_empty f k v hf l key val hv
    exact ⟨x, hx, hk⟩

/-- A key with a binding is in the key list. -/
theorem mem_keys_of_get (m : HashMap κ β) (key : κ) (val : β) (h : m[key]? = some val) : key ∈ m.keys := by
  rw [HashMap.mem_keys, HashMap.mem_iff_isSome_getElem?, h]
  rfl

/-- The fold adds at most one entry per list element. -/
theorem fold_size_le (f : HashMap κ β → α → HashMap κ β) (k : α → κ) (v : α → β)
    (hf : ∀ m x, f m x = m.insert (k x) (v x)) (l : List α) (init : HashMap κ β) :
    (l.foldl f init).size ≤ init.size + l.length := by
  induction l generalizing init with
  | nil => exact Nat.le_refl _
  | cons x t ih =>
    rw [List.foldl_cons, List.length_cons]
    have h1 := ih (f init x)
    have h2 : (f init x).size ≤ init.size + 1 := by
      rw [hf]; exact HashMap.size_insert_le
    omega

/-- If the fold added one entry per list element, the keys of the list are new and pairwise different. -/
theorem fold_size_eq (f : HashMap κ β → α → HashMap κ β) (k : α → κ) (v : α → β)
    (hf : ∀ m x, f m x = m.insert (k x) (v x)) (l : List α) (init : HashMap κ β)
    (h : (l.foldl f init).size = init.size + l.length) :
    List.Pairwise (fun a b => k a ≠ k b) l ∧ ∀ x ∈ l, ¬ k x ∈ init := by
  induction l generalizing init with
  | nil => exact ⟨List.Pairwise.nil, fun _ hx => nomatch hx⟩
  | cons x t ih =>
    rw [List.foldl_cons, List.length_cons] at h
    have h1 := fold_size_le f k v hf t (f init x)
    have h2 : (f init x).size ≤ init.size + 1 := by
      rw [hf]; exact HashMap.size_insert_le
    have h3 : (f init x).size = init.size + 1 := by omega
    have h4 : (t.foldl f (f init x)).size = (f init x).size + t.length := by omega
    obtain ⟨hp, hn⟩ := ih (f init x) h4
    have hx : ¬ k x ∈ init := by
      intro hmem
      rw [hf, HashMap.size_insert, if_pos hmem] at h3
      omega
    have hn' : ∀ y ∈ t, k x ≠ k y ∧ ¬ k y ∈ init := by
      intro y hy
      have := hn y hy
      rw [hf, HashMap.mem_insert] at this
      constructor
      · intro he
        exact this (Or.inl (by rw [he]; exact BEq.refl _))
      · intro hm
        exact this (Or.inr hm)
    refine ⟨List.Pairwise.cons (fun y hy => (hn' y hy).1) hp, ?_⟩
    intro y hy
    rcases List.mem_cons.mp hy with rfl | hy
    · exact hx
    · exact (hn' y hy).2

end Fold

/-! ### `maxLen` and `minLen` -/

theorem foldl_max_ge_init (l : List Nat) (a : Nat) : a ≤ l.foldl max a := by
  induction l generalizing a with
  | nil => exact Nat.le_refl _
  | cons x t ih =>
    rw [List.foldl_cons]
    exact Nat.le_trans (Nat.le_max_left a x) (ih _)

theorem le_foldl_max (l : List Nat) (a x : Nat) (hx : x ∈ l) : x ≤ l.foldl max a := by
  induction l generalizing a with
  | nil => cases hx
  | cons y t ih =>
    rw [List.foldl_cons]
    rcases List.mem_cons.mp hx with rfl | hx
    · exact Nat.le_trans (Nat.le_max_right a x) (foldl_max_ge_init t _)
    · exact ih _ hx

theorem le_maxLen (ks : List Bytes) (b : Bytes) (hb : b ∈ ks) : b.length ≤ maxLen ks := by
  unfold maxLen
  exact Nat.le_trans (le_foldl_max _ 0 _ (List.mem_map_of_mem hb)) (Nat.le_max_left _ _)

theorem foldl_min_le_init (l : List Bytes) (a : Nat) : l.foldl (fun m x => min m x.length) a ≤ a := by
  induction l generalizing a with
  | nil => exact Nat.le_refl _
  | cons x t ih =>
    rw [List.foldl_cons]
    exact Nat.le_trans (ih _) (Nat.min_le_left _ _)

theorem foldl_min_le (l : List Bytes) (a : Nat) (b : Bytes) (hb : b ∈ l) :
    l.foldl (fun m x => min m x.length) a ≤ b.length := by
  induction l generalizing a with
  | nil => cases hb
  | cons y t ih =>
    rw [List.foldl_cons]
    rcases List.mem_cons.mp hb with rfl | hb
    · exact Nat.le_trans (foldl_min_le_init t _) (Nat.min_le_right _ _)
    · exact ih _ hb

theorem minLen_le (ks : List Bytes) (b : Bytes) (hb : b ∈ ks) (hne : b ≠ []) : minLen ks ≤ b.length := by
  have h1 : 1 ≤ b.length := by
    cases b with
    | nil => exact absurd rfl hne
    | cons _ _ => exact Nat.succ_le_succ (Nat.zero_le _)
  cases ks with
  | nil => cases hb
  | cons k rest =>
    unfold minLen
    apply Nat.max_le.mpr
    refine ⟨?_, h1⟩
    rcases List.mem_cons.mp hb with rfl | hb
    · exact foldl_min_le_init rest _
    · exact foldl_min_le rest _ b hb

/-! ### The encoder -/

theorem bpe_wf (vocab : List (Id × Bytes)) (hne : ∀ e ∈ vocab, e.2 ≠ []) (hsz : vocab.length ≤ MAXR)
    (ranks : HashMap Bytes Nat) (vm : HashMap Bytes Id)
    (hr : ranks = (vocab.zipIdx).foldl (fun m ((_, b), i) => m.insert b i) {})
    (hv : vm = vocab.foldl (fun m (i, b) => m.insert b i) {})
    (unknown : Option Id) (eow : Option Bytes) (chars : Bool) (fb : List Fallback) :
    BpeWF { tok := fun b => vm[b]?, rank := fun b => ranks[b]?, unknown := unknown, eow := eow, chars := chars,
            fallback := fb, maxTok := maxLen vm.keys, minTok := minLen vm.keys } := by
  constructor
  · intro b
    show (ranks[b]?).getD MAXR ≤ MAXR
    cases hg : ranks[b]? with
    | none => exact Nat.le_refl _
    | some i =>
      rw [hr] at hg
      obtain ⟨x, hx, _, hi⟩ := fold_get_empty (fun m (x : (Id × Bytes) × Nat) => match x with | ((_, b), i) => m.insert b i)
        (fun x => x.1.2) (fun x => x.2) (fun _ _ => rfl) vocab.zipIdx b i hg
      have hlt := (List.mem_zipIdx' (x := x.1) (i := x.2) hx).1
      show i ≤ MAXR
      omega
  · intro b i hb
    have hb : vm[b]? = some i := hb
    have hk : b ∈ vm.keys := mem_keys_of_get vm b i hb
    have hne' : b ≠ [] := by
      rw [hv] at hk
      obtain ⟨x, hx, hxb⟩ := fold_keys_empty (fun m (x : Id × Bytes) => match x with | (i, b) => m.insert b i)
        (fun x => x.2) (fun x => x.1) (fun _ _ => rfl) vocab b hk
      rw [← hxb]
      exact hne x hx
    exact ⟨minLen_le _ b hk hne', le_maxLen _ b hk⟩

theorem uni_wf (vocab : List (Id × Bytes)) (scores : List UInt32) (hid : ∀ e ∈ vocab, e.1 ≠ INVALID)
    (vm : HashMap Bytes (Id × Score))
    (hv : vm = (vocab.zip scores).foldl (fun m ((i, b), s) => m.insert b (i, ⟨false, f32ToFloat s⟩)) {})
    (unknown : Option Id) (fb : List Fallback) :
    EncUni.UniWF ({ tok := fun b => vm[b]?, unknown := unknown, fallback := fb,
                    maxTok := maxLen vm.keys, minTok := minLen vm.keys } : UniCtx Score) := by
  constructor
  · intro b id sc hb
    have hb : vm[b]? = some (id, sc) := hb
    rw [hv] at hb
    obtain ⟨x, hx, _, hval⟩ := fold_get_empty
      (fun m (x : (Id × Bytes) × UInt32) => match x with | ((i, b), s) => m.insert b (i, (⟨false, f32ToFloat s⟩ : Score)))
      (fun x => x.1.2) (fun x => (x.1.1, (⟨false, f32ToFloat x.2⟩ : Score))) (fun _ _ => rfl) (vocab.zip scores) b (id, sc) hb
    have hid' : x.1.1 = id := congrArg Prod.fst hval
    rw [← hid']
    exact hid x.1 (List.of_mem_zip (a := x.1) (b := x.2) hx).1
  · intro b id sc hb
    have hb : vm[b]? = some (id, sc) := hb
    exact le_maxLen _ b (mem_keys_of_get vm b (id, sc) hb)

theorem mkEncoder_wf (d : Definition) (hd : LoadableWF d) :
    ∀ enc : EncoderModel Score, mkEncoder d = .ok enc →
      match enc with
      | .bpe c => BpeWF c
      | .unigram c => EncUni.UniWF c
      | .wordpiece _ => True := by
  intro enc h
  unfold mkEncoder at h
  split at h
  · rename_i vocab chars hm
    have hne : ∀ e ∈ vocab, e.2 ≠ [] := by
      have := hd.tokens_nonempty; rw [hm] at this; exact this
    have hsz : vocab.length ≤ MAXR := by
      have := hd.size; rw [hm] at this; exact this
    simp only [] at h
    split at h
    · cases h
    · cases h
      exact bpe_wf vocab hne hsz _ _ rfl rfl _ _ _ _
  · rename_i vocab scores hm
    have hid : ∀ e ∈ vocab, e.1 ≠ INVALID := by
      have := hd.ids_valid; rw [hm] at this; exact this
    split at h
    · cases h
    · simp only [] at h
      split at h
      · cases h
      · cases h
        exact uni_wf vocab scores hid _ rfl _ _
  · simp only [] at h
    cases h
    trivial

/-! ### Special tokens and the whole tokenizer -/

theorem specials_wf (specials : List SpecialDef) (hne : ∀ s ∈ specials, s.bytes ≠ [])
    (hu : (specials.all fun s => validUtf8 s.bytes) = true)
    (hsz : specials.length = (specials.foldl (fun m s => m.insert s.bytes ()) ({} : HashMap Bytes Unit)).size) :
    SpecialsWF (specials.map fun s => ({ id := s.id, bytes := s.bytes, kind := s.kind, extract := s.extract } : Special)) := by
  constructor
  · intro s hs
    obtain ⟨x, hx, rfl⟩ := List.mem_map.mp hs
    exact hne x hx
  · rw [List.pairwise_map]
    have := fold_size_eq (fun (m : HashMap Bytes Unit) (s : SpecialDef) => m.insert s.bytes ()) (fun s => s.bytes)
      (fun _ => ()) (fun _ _ => rfl) specials ∅ (by rw [HashMap.size_empty, Nat.zero_add]; exact hsz.symm)
    exact this.1
  · intro s hs
    obtain ⟨x, hx, rfl⟩ := List.mem_map.mp hs
    exact List.all_eq_true.mp hu x hx

theorem loaded_tokenizer_wf (d : Definition) (tk : Tokenizer Score) (h : Tokenizer.new d = .ok tk) (hd : LoadableWF d) :
    SpecialsWF tk.specials ∧
    (match tk.encoder with
      | .bpe c => BpeWF c
      | .unigram c => EncUni.UniWF c
      | .wordpiece _ => True) ∧
    (∀ n ∈ tk.config.normalization, NormLiteralsValid n) ∧ (∀ s ∈ tk.config.split, SplitLiteralsValid s) := by
  unfold Tokenizer.new at h
  split at h
  · cases h
  · rename_i hu
    split at h
    · cases h
    · rename_i enc henc
      simp only [] at h
      split at h
      · cases h
      · rename_i hsz
        cases h
        refine ⟨?_, mkEncoder_wf d hd enc henc, hd.norm_literals, hd.split_literals⟩
        apply specials_wf d.specials hd.specials_nonempty
        · simpa using hu
        · simpa using hsz

end Kitoken.Proofs.Loaded
