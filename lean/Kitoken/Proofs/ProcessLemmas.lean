import Kitoken.Model.Process
namespace Kitoken

theorem countLeading_le (id : Id) (n : Nat) (ts : List Id) : countLeading id n ts ≤ n := by
  fun_induction countLeading id n ts <;> omega

theorem countLeading_le_length (id : Id) (n : Nat) (ts : List Id) :
    countLeading id n ts ≤ ts.length := by
  fun_induction countLeading id n ts <;> simp <;> omega

/-- The counted prefix consists of copies of `id`. -/
theorem countLeading_prefix (id : Id) (n : Nat) (ts : List Id) :
    ts.take (countLeading id n ts) = List.replicate (countLeading id n ts) id := by
  fun_induction countLeading id n ts <;> simp_all [List.replicate_succ]

/-- Maximality: if fewer than `n` were counted, the rest does not start with `id`. -/
theorem countLeading_maximal (id : Id) (n : Nat) (ts : List Id)
    (h : countLeading id n ts < n) : (ts.drop (countLeading id n ts)).head? ≠ some id := by
  fun_induction countLeading id n ts <;> simp_all

theorem roundUp_ge (d s : Nat) : d ≤ roundUp d s := by
  unfold roundUp; split <;> omega

theorem roundUp_lt (d s : Nat) (hs : 0 < s) : roundUp d s < d + s := by
  unfold roundUp
  split
  · have := Nat.mod_lt d hs; omega
  · omega

theorem roundUp_mod (d s : Nat) (hs : 0 < s) : roundUp d s % s = 0 := by
  unfold roundUp
  split
  · rename_i h
    have h1 := Nat.mod_lt d hs
    have h2 := Nat.div_add_mod d s
    have : d + (s - d % s) = s * (d / s + 1) := by
      rw [Nat.mul_add, Nat.mul_one]; omega
    rw [this]; exact Nat.mul_mod_right s _
  · rename_i h
    have : d % s = 0 := by omega
    exact this

theorem roundUp_zero_stride (d : Nat) : roundUp d 0 = d := by simp [roundUp]

end Kitoken

namespace Kitoken

/-- Reference: every maximal run of `id` is replaced by a single `id`; nothing else changes. -/
def collapseSpec (id : Id) : List Id → List Id
  | [] => []
  | [a] => [a]
  | a :: b :: t => if a = id ∧ b = id then collapseSpec id (b :: t) else a :: collapseSpec id (b :: t)

/-- No two adjacent copies of `id`. -/
def NoAdj (id : Id) : List Id → Prop
  | [] => True
  | [_] => True
  | a :: b :: t => ¬(a = id ∧ b = id) ∧ NoAdj id (b :: t)

theorem collapseSpec_head (id a : Id) (ts : List Id) :
    ∃ r, collapseSpec id (a :: ts) = a :: r := by
  induction ts generalizing a with
  | nil => exact ⟨[], rfl⟩
  | cons b t ih =>
    simp only [collapseSpec]
    split
    · rename_i h; obtain ⟨r, hr⟩ := ih b; exact ⟨r, by rw [hr, h.1, h.2]⟩
    · exact ⟨_, rfl⟩

theorem collapseAux_eq (id a : Id) (ts : List Id) :
    a :: collapseAux id (some a) ts = collapseSpec id (a :: ts) := by
  induction ts generalizing a with
  | nil => simp [collapseAux, collapseSpec]
  | cons b t ih =>
    simp only [collapseAux, collapseSpec]
    by_cases h : a = b ∧ b = id
    · have h' : a = id ∧ b = id := ⟨h.1.trans h.2, h.2⟩
      have h'' : some a = some b ∧ b = id := ⟨by rw [h.1], h.2⟩
      rw [if_pos h'', if_pos h', ← ih b, h.1]
    · have h' : ¬(a = id ∧ b = id) := fun hh => h ⟨hh.1.trans hh.2.symm, hh.2⟩
      have h'' : ¬(some a = some b ∧ b = id) := fun hh => h ⟨Option.some.inj hh.1, hh.2⟩
      rw [if_neg h'', if_neg h', ih b]

theorem processCollapse_eq_spec (id : Id) (ts : List Id) :
    processCollapse id ts = collapseSpec id ts := by
  cases ts with
  | nil => rfl
  | cons a t =>
    unfold processCollapse
    simp only [collapseAux]
    have : ¬((none : Option Id) = some a ∧ a = id) := by simp
    rw [if_neg this]
    exact collapseAux_eq id a t

theorem collapseSpec_noAdj (id : Id) (ts : List Id) : NoAdj id (collapseSpec id ts) := by
  fun_induction collapseSpec id ts with
  | case1 => trivial
  | case2 => trivial
  | case3 a b t h ih => exact ih
  | case4 a b t h ih =>
    obtain ⟨r, hr⟩ := collapseSpec_head id b t
    rw [hr] at ih ⊢
    exact ⟨h, ih⟩

theorem collapseSpec_filter (id : Id) (ts : List Id) :
    (collapseSpec id ts).filter (· ≠ id) = ts.filter (· ≠ id) := by
  fun_induction collapseSpec id ts with
  | case1 => rfl
  | case2 => rfl
  | case3 a b t h ih => rw [ih]; simp [h.1]
  | case4 a b t h ih => simp only [List.filter_cons, ih]

theorem collapseSpec_sublist (id : Id) (ts : List Id) : (collapseSpec id ts).Sublist ts := by
  fun_induction collapseSpec id ts with
  | case1 => exact List.Sublist.refl _
  | case2 => exact List.Sublist.refl _
  | case3 a b t h ih => exact List.Sublist.cons _ ih
  | case4 a b t h ih => exact List.Sublist.cons_cons _ ih

theorem collapseSpec_of_noAdj (id : Id) (ts : List Id) (h : NoAdj id ts) : collapseSpec id ts = ts := by
  fun_induction collapseSpec id ts with
  | case1 => rfl
  | case2 => rfl
  | case3 a b t hab ih => exact absurd hab h.1
  | case4 a b t hab ih => rw [ih h.2]

end Kitoken
