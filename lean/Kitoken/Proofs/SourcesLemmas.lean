/-
  Helper lemmas for C16 (the same tokenizer from different sources).
-/
import Kitoken.Proofs.RoundTripLemmas
import Kitoken.Model.Init
namespace Kitoken.Proofs.Sources

open Kitoken Kitoken.Spec Kitoken.Utf8 Kitoken.Proofs.RoundTrip

theorem spm_norm (next : NormExt) (pos : Position) (m : Char) (cs : List Char) :
    normalizeSteps next pos [.replace (.string [32]) (encodeChar m), .extend m 1 0 false] (encodeChars cs) =
      some (.ok (encodeChars (m :: replaceAll [' '] [m] cs))) := by
  simp only [normalizeSteps, Normalization.normalize]
  rw [space_bytes, ← encodeChars_singleton m, Normalize.replace_literal_chars, Normalize.extend_chars,
    Normalize.extend_spec_nopad]
  simp

theorem hf_norm (next : NormExt) (pos : Position) (m : Char) (cs : List Char) (hsp : m ≠ ' ') :
    normalizeSteps next pos [.prepend (encodeChar m), .replace (.string [32]) (encodeChar m)] (encodeChars cs) =
      some (.ok (encodeChars (m :: replaceAll [' '] [m] cs))) := by
  simp only [normalizeSteps, Normalization.normalize]
  rw [← encodeChars_cons, space_bytes, ← encodeChars_singleton m, Normalize.replace_literal_chars,
    replaceAll_single_cons]
  simp [hsp]

theorem new_ignores_metadata (d d' : Definition) (hm : d.model = d'.model) (hs : d.specials = d'.specials)
    (hc : d.config = d'.config) : Tokenizer.new d = Tokenizer.new d' := by
  cases d; cases d'
  simp only at hm hs hc
  subst hm hs hc
  rfl

end Kitoken.Proofs.Sources
