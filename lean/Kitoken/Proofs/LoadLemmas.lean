/-
  Lemmas for C17 (loading arbitrary bytes). The proofs live in these files:
  - Kitoken/Proofs/LoadBasic.lean: for arbitrary input, what a successful decode leaves is a suffix of
    the input (`Suff`) and element decoders take at least one byte (`Eats`), for every primitive and
    combinator of Kitoken.Model.Codec; a decoded sequence has no more elements than bytes consumed;
  - Kitoken/Proofs/LoadDef.lean: the same for every type of the definition format
    (`definition_dec_suffix`, `definition_sizes_bounded`);
  - Kitoken/Proofs/LoadTrunc.lean: a decoder rejects every proper prefix of what its encoder wrote
    (`TruncFails`), for every primitive and combinator;
  - Kitoken/Proofs/LoadTruncDef.lean: the same for every type of the definition format, then
    `truncation_rejected` for native files;
  - Kitoken/Proofs/LoadRegex.lean: a regex oracle that rejects a split pattern makes the body decoder
    fail (`invalid_regex_rejected`).
  This file adds the facts about the character-map blob loader and gathers everything under the
  namespace `Kitoken.Proofs.Load`. Core Lean only.
-/
import Kitoken.Proofs.LoadDef
import Kitoken.Proofs.LoadTruncDef
import Kitoken.Proofs.LoadRegex
import Kitoken.Proofs.CharsMapLemmas
namespace Kitoken.Proofs.Load

open Kitoken Kitoken.CharsMap

theorem charsmap_load_total (data : Bytes) : (load data).isPanic = false :=
  Kitoken.Proofs.CharsMap.load_total data

theorem charsmap_undersized_rejected (data : Bytes) (h : data.length < 4) : ∃ e, load data = .err e := by
  match data, h with
  | [], _ => exact ⟨_, rfl⟩
  | [_], _ => exact ⟨_, rfl⟩
  | [_, _], _ => exact ⟨_, rfl⟩
  | [_, _, _], _ => exact ⟨_, rfl⟩
  | _ :: _ :: _ :: _ :: _, h => simp only [List.length_cons] at h; omega

theorem charsmap_size_field_checked (a b c d : UInt8) (rest : Bytes) (h : rest.length < (le32 a b c d).toNat) :
    ∃ e, load (a :: b :: c :: d :: rest) = .err e := by
  refine ⟨.other "CharsMap data too short", ?_⟩
  simp only [load, List.length_cons]
  rw [if_pos (by omega)]

theorem wordsLE_length (bs : Bytes) : 4 * (wordsLE bs).length ≤ bs.length := by
  fun_induction wordsLE bs with
  | case1 a b c d rest ih => simp only [List.length_cons]; omega
  | case2 bs h => simp

/-- What is loaded lies within the blob (the four bytes of the size field come on top). -/
theorem charsmap_load_within_strong (data : Bytes) (m : CharsMap) (h : load data = .ok m) :
    4 * m.array.size + m.normalized.length + 4 ≤ data.length := by
  obtain ⟨a, b, c, d, rest, rfl, hle, harr, hnorm⟩ := Kitoken.Proofs.CharsMap.load_layout data m h
  have h1 := wordsLE_length (rest.take (le32 a b c d).toNat)
  rw [← harr, List.length_take] at h1
  rw [hnorm, List.length_drop]
  simp only [List.length_cons, Array.length_toList] at h1 ⊢
  omega

theorem charsmap_load_within (data : Bytes) (m : CharsMap) (h : load data = .ok m) :
    4 * m.array.size + m.normalized.length ≤ data.length := by
  have := charsmap_load_within_strong data m h
  omega

end Kitoken.Proofs.Load
