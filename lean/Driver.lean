/-
  Line-protocol driver: reads `OP args… :: impl answer…` lines on stdin, answers
  `<model answer> || <spec verdict on the implementation's answer>` per line.
-/
import Kitoken.Driver.Ops
open Kitoken Kitoken.Driver

def splitImpl (ws : List String) : List String × List String :=
  (ws.takeWhile (· != "::"), (ws.dropWhile (· != "::")).drop 1)

def step (line : String) : String :=
  let ws := (line.trimAscii.toString.splitOn " ").filter (· != "")
  let (req, impl) := splitImpl ws
  match req with
  | "PROC" :: args => handleProc args impl
  | _ => "BAD-OP"

partial def loop (h : IO.FS.Stream) (out : IO.FS.Stream) : IO Unit := do
  let line ← h.getLine
  if line.isEmpty then return ()
  out.putStrLn (step line)
  loop h out

def main : IO Unit := do
  let out ← IO.getStdout
  loop (← IO.getStdin) out
  out.flush
