/-
  Line-protocol driver: reads `OP args… :: impl answer…` lines on stdin, answers
  `<model answer> || <spec verdict on the implementation's answer>` per line
  (`ACK` for lines that only set state).
-/
import Kitoken.Driver.Ops
open Kitoken Kitoken.Driver

def splitImpl (ws : List String) : List String × List String :=
  (ws.takeWhile (· != "::"), (ws.dropWhile (· != "::")).drop 1)

def step (st : State) (line : String) : State × String :=
  let ws := (line.trimAscii.toString.splitOn " ").filter (· != "")
  let (req, impl) := splitImpl ws
  match req with
  | "PROC" :: args => (st, handleProc args impl)
  | "DECSTEP" :: args => (st, handleDecStep args impl)
  | "DEF" :: args => handleDef st args
  | "ENC" :: args => (st, handleEnc st args impl)
  | "DEC" :: args => (st, handleDec st args impl)
  | "ENC2" :: args => (st, handleEncV "2" st args impl)
  | "ENC7" :: args => (st, handleEncV "7" st args impl)
  | "ENC9" :: args => (st, handleEncV "9" st args impl)
  | "ENC18" :: args => (st, handleEncV "18" st args impl)
  | "IMPLONLY" :: _ =>
    -- cases too large for the list-based model: only the implementation's outcome is judged (C18)
    (st, match impl with
      | "PANIC" :: _ => "SKIP || FAILS panic"
      | "CRASH" :: _ => "SKIP || FAILS crash"
      | _ => "SKIP || HOLDS")
  | "IMPLEQ" :: _ =>
    -- two runs of the implementation compared by the harness (C14 behaviour equality, C19 determinism)
    (st, match impl with
      | ["OK"] => "SKIP || HOLDS"
      | _ => "SKIP || FAILS implementation-runs-differ")
  | "INITB" :: args => (st, handleInitB args impl)
  | "LOADF" :: _ =>
    -- foreign formats and auto-detection: outcome of the real loader in a child process (C17)
    (st, match impl with
      | "PANIC" :: _ => "SKIP || FAILS panic"
      | "CRASH" :: _ => "SKIP || FAILS crash"
      | _ => "SKIP || HOLDS")
  | "DESER" :: args => (st, handleDeser args impl)
  | "TODEF" :: args => (st, handleToDef args impl)
  | "REF9" :: args => (st, handleEncV "9" st args impl)
  | "RT" :: args => (st, handleRoundTrip st args impl)
  | "REC" :: args => (st, handleRec st args impl)
  | "SRCT" :: args => handleSrcT st args
  | "KEEPS" :: args => (st, handleKeeps st args impl)
  | "CONVTT" :: args => (st, handleConvTT st args)
  | "CONVTK" :: args => (st, handleConvTK st args)
  | "BYTETAB" :: args => (st, handleByteTab args)
  | "LOADTT" :: args => (st, handleLoadTT args)
  | "HFA" :: args => handleHfLine st "HFA" args
  | "HFV" :: args => handleHfLine st "HFV" args
  | "HFM" :: args => handleHfLine st "HFM" args
  | "CONVHF" :: args => (st, handleConvHf st args)
  | "SPT" :: args => handleSpLine st "SPT" args
  | "SPP" :: args => handleSpLine st "SPP" args
  | "CONVSP" :: args => (st, handleConvSp st args)
  | "BYTEPIECE" :: args => (st, handleBytePiece args)
  | "BPE" :: args => (st, handlePiece st args impl)
  | "UNI" :: args => (st, handlePiece st args impl)
  | "WP" :: args => (st, handlePiece st args impl)
  | "SPLIT" :: args => (st, handleSplit args impl)
  | "NORM" :: args => (st, handleNorm args impl)
  | "NORMS" :: args => (st, handleNormSlot st args impl)
  | "CMAP_LOAD" :: args => (st, handleCmapLoad args impl)
  | _ => (st, "BAD-OP")

partial def loop (h : IO.FS.Stream) (out : IO.FS.Stream) (st : State) : IO Unit := do
  let line ← h.getLine
  if line.isEmpty then return ()
  let (st', ans) := step st line
  out.putStrLn ans
  loop h out st'

def main : IO Unit := do
  let out ← IO.getStdout
  loop (← IO.getStdin) out {}
  out.flush
