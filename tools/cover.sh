#!/bin/bash
# tools/cover.sh — which lines of /repo/src do the correspondence generators (quick tier, all properties) execute?
# Builds the harness with source-based coverage on the nightly toolchain into /verif/build/cargo-cov, runs every
# generator once, merges the profiles (child processes included) and prints a per-file summary plus the uncovered
# lines of the core files. A development aid for finding generator gaps; not part of any registered check.
set -e
export CARGO_NET_OFFLINE=true
T=$(dirname "$(rustup which --toolchain nightly rustc)")/../lib/rustlib/x86_64-unknown-linux-gnu/bin
cd /verif/harness
LLVM_PROFILE_FILE=/verif/build/cov/build-%p.profraw RUSTFLAGS="-C instrument-coverage" cargo +nightly build --offline --target-dir /verif/build/cargo-cov 2>&1 | tail -1
rm -f /repo/default_*.profraw   # build scripts run instrumented with the package directory as cwd
mkdir -p /verif/build/cov && cd /verif/build/cov && rm -f *.profraw
for p in C01 C02 C03 C04 C05 C06 C07 C08 C09 C10 C11 C12 C13 C14 C15 C16 C17 C18 C19; do
  LLVM_PROFILE_FILE="/verif/build/cov/$p-%p.profraw" KVH_SHARDS=1 /verif/build/cargo-cov/debug/kvh gen $p quick 1 /verif/build/cov/g_$p >/dev/null 2>&1 || true
  rm -f g_$p*.ops
done
$T/llvm-profdata merge -sparse *.profraw -o all.profdata
rm -f *.profraw
$T/llvm-cov export /verif/build/cargo-cov/debug/kvh -instr-profile=all.profdata --ignore-filename-regex='(registry|rustc|harness)' -summary-only > cov.json
python3 - <<'PY'
import json
d=json.load(open('/verif/build/cov/cov.json'))
tl=tc=0
for f in d['data'][0]['files']:
    n=f['filename']
    if not n.startswith('/repo/src'): continue
    s=f['summary']; tl+=s['lines']['count']; tc+=s['lines']['covered']
    print("%-34s lines %5.1f%% (%d/%d)  functions %d/%d" % (n.replace('/repo/',''), s['lines']['percent'], s['lines']['covered'], s['lines']['count'], s['functions']['covered'], s['functions']['count']))
print("TOTAL lines %.1f%% (%d/%d)" % (100.0*tc/tl, tc, tl))
PY
for f in lib.rs decoder.rs encoder/bytepair.rs encoder/unigram.rs encoder/wordpiece.rs config/split.rs config/normalization.rs config/processing.rs config/decoding.rs charsmap.rs; do
  echo "== uncovered in src/$f"
  $T/llvm-cov show /verif/build/cargo-cov/debug/kvh -instr-profile=all.profdata /repo/src/$f 2>/dev/null | grep -E "^ +[0-9]+\| +0\|" | cut -c1-120 | grep -v "fn fmt\|debug_struct\|\.field(\|\.finish()" | head -20
done
