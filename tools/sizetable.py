#!/usr/bin/env python3
"""tools/sizetable.py [thorough-log] — prints the sizes table of DESIGN.md §10.1 from evidence/*.json (quick tier) and a
log of a thorough pass (lines 'Cxx thorough: theorems a/b, cases n (...), ..., Ns')."""
import json, glob, re, sys
th = {}
if len(sys.argv) > 1:
    for l in open(sys.argv[1]):
        m = re.match(r"(C\d\d) thorough: theorems \d+/\d+, cases (\d+) .*?, (\d+)s$", l.strip())
        if m:
            th[m.group(1)] = (m.group(2), m.group(3))
print("| property | theorems (audited) | quick: cases | quick: wall s | thorough: cases | thorough: wall |")
print("|---|---|---|---|---|---|")
for f in sorted(glob.glob("/verif/evidence/C*.json")):
    e = json.load(open(f))
    p = e["property_id"]
    t = th.get(p, ("?", "?"))
    print("| %s | %d | %d | %.1f | %s | %s s |" % (p, len(e["coverage"]["theorems"]), e["coverage"]["evaluations"], e["wall_s"], t[0], t[1]))
