#!/usr/bin/env python3
"""Developer helper: compare an .ops file with the driver's output; print disagreements."""
import sys
ops, out = sys.argv[1], sys.argv[2]
lim = int(sys.argv[3]) if len(sys.argv) > 3 else 10
n = bad = 0
slotname = {}
for line, ans in zip(open(ops), open(out)):
    line = line.rstrip("\n"); ans = ans.rstrip("\n")
    if " :: " not in line:
        if not ans.startswith("ACK"):
            print("NOACK", line[:100], ans[:100])
        continue
    req, impl = line.split(" :: ", 1)
    model = ans.split(" || ")[0]
    verdict = ans.split(" || ")[1] if " || " in ans else "?"
    n += 1
    if model != impl or verdict.startswith("FAILS"):
        bad += 1
        if bad <= lim:
            words = req.split(" ")
            short = " ".join(w if len(w) < 300 else w[:60] + "…" for w in words if not w.startswith("ORA:"))
            print("REQ ", short)
            print(" IMPL ", impl[:300])
            print(" MODEL", model[:300], "||", verdict)
print("%s: %d cases, %d bad" % (ops, n, bad))
