#!/usr/bin/env python3
"""Orchestrator: ./check <id> quick|thorough   |   ./check <id> --replay <file>

Pipeline (DESIGN.md §2.6): translator -> lake build (theorems of this property + driver) -> axiom
audit -> cargo build of the harness against /repo's working tree (verif-hooks on) -> corpus and
generated correspondence cases through implementation, Lean model and Lean spec -> decision (§3)
-> evidence/<id>.json.
"""
import fcntl, hashlib, json, os, re, subprocess, sys, time, glob, shutil

ROOT = os.path.dirname(os.path.dirname(os.path.abspath(__file__)))
LEAN = os.path.join(ROOT, "lean")
BUILD = os.path.join(ROOT, "build")
HARNESS = os.path.join(ROOT, "harness")
REPO = os.environ.get("KITOKEN_REPO", "/repo")
KVH = os.path.join(BUILD, "cargo", "debug", "kvh")
KDRIVER = os.path.join(LEAN, ".lake", "build", "bin", "kdriver")
ALLOWED_AXIOMS = {"propext", "Classical.choice", "Quot.sound"}
FORBIDDEN = re.compile(r"\bsorry\b|\badmit\b|^axiom\s|native_decide|bv_decide|implemented_by|\bunsafe\s|maxHeartbeats\s+0")
NCPU = os.cpu_count() or 4
SLOT_STATE_OPS = {"SRCT", "HFA", "HFV", "HFM", "SPT", "SPP"}
SLOT_OPS = {"KEEPS", "CONVTT", "CONVTK", "CONVHF", "CONVSP", "ENC", "DEC", "BPE", "UNI", "WP", "TODEF", "SER", "REC", "RT", "ENC2", "ENC7", "ENC9", "ENC18", "REF9"}

sys.path.insert(0, os.path.dirname(os.path.abspath(__file__)))
import props  # per-property metadata


def sh(cmd, cwd=None, timeout=None, env=None):
    e = dict(os.environ)
    e["CARGO_NET_OFFLINE"] = "true"
    if env:
        e.update(env)
    p = subprocess.run(cmd, cwd=cwd, shell=isinstance(cmd, str), stdout=subprocess.PIPE,
                       stderr=subprocess.STDOUT, text=True, timeout=timeout, env=e, errors="replace")
    return p.returncode, p.stdout


class Lock:
    def __init__(self, name):
        os.makedirs(BUILD, exist_ok=True)
        self.path = os.path.join(BUILD, name + ".lock")

    def __enter__(self):
        self.f = open(self.path, "w")
        fcntl.flock(self.f, fcntl.LOCK_EX)
        return self

    def __exit__(self, *a):
        fcntl.flock(self.f, fcntl.LOCK_UN)
        self.f.close()


def strip_comments(src):
    # remove /- ... -/ (nested not handled beyond one level; good enough for the audit grep) and -- comments
    out, i, depth = [], 0, 0
    while i < len(src):
        if src.startswith("/-", i):
            depth += 1
            i += 2
        elif src.startswith("-/", i) and depth > 0:
            depth -= 1
            i += 2
        elif depth > 0:
            if src[i] == "\n":
                out.append("\n")
            i += 1
        elif src.startswith("--", i):
            while i < len(src) and src[i] != "\n":
                i += 1
        else:
            out.append(src[i])
            i += 1
    return "".join(out)


def theorem_names(prop):
    """Property theorems of `prop`: Theorems/<prop>.lean and continuation files Theorems/<prop>[a-z].lean
    (same namespace Kitoken.<prop>, imported by the main file)."""
    base = os.path.join(LEAN, "Kitoken", "Theorems")
    paths = [os.path.join(base, prop + ".lean")] + sorted(glob.glob(os.path.join(base, prop + "[a-z].lean")))
    names = []
    for path in paths:
        if not os.path.exists(path):
            continue
        src = strip_comments(open(path).read())
        names += re.findall(r"^theorem\s+([A-Za-z0-9_'.₀-₉]+)", src, re.M)
    return names


def lean_sources_for_audit():
    files = []
    for sub in ("Model", "Spec", "Proofs", "Theorems", "Driver", "Generated"):
        files += glob.glob(os.path.join(LEAN, "Kitoken", sub, "*.lean"))
    files.append(os.path.join(LEAN, "Driver.lean"))
    return files


def run_extract(report):
    rc, out = sh([sys.executable, os.path.join(ROOT, "tools", "extract.py")], cwd=ROOT, timeout=300)
    report["extract"] = {"ok": rc == 0, "log": out[-4000:]}
    return rc == 0


def build_lean(prop, report):
    targets = ["kdriver"]
    if os.path.exists(os.path.join(LEAN, "Kitoken", "Theorems", prop + ".lean")):
        targets.insert(0, "Kitoken.Theorems." + prop)
    ok_all = True
    logs = {}
    # continuation files (C18c imports C18 rather than the other way round)
    extra = ["Kitoken.Theorems." + os.path.basename(f)[:-5]
             for f in sorted(glob.glob(os.path.join(LEAN, "Kitoken", "Theorems", prop + "[a-z].lean")))]
    for t in targets + extra:
        rc, out = sh(["lake", "build", t], cwd=LEAN, timeout=3600)
        logs[t] = out[-6000:]
        if rc != 0:
            ok_all = False
    report["lake_build"] = {"ok": ok_all, "targets": targets,
                            "log": {k: v for k, v in logs.items() if "error" in v}}
    report["driver_ok"] = os.path.exists(KDRIVER) and ("error" not in logs.get("kdriver", ""))
    report["proof_ok"] = ok_all if len(targets) == 2 else False
    return ok_all


def audit(prop, report, thorough):
    names = theorem_names(prop)
    expected = props.PROPS[prop].get("theorems")
    missing = [n for n in (expected or []) if n not in names]
    audit_dir = os.path.join(BUILD, "audit")
    os.makedirs(audit_dir, exist_ok=True)
    path = os.path.join(audit_dir, prop + ".lean")
    with open(path, "w") as f:
        f.write("import Kitoken.Theorems.%s\n" % prop)
        for extra in sorted(glob.glob(os.path.join(LEAN, "Kitoken", "Theorems", prop + "[a-z].lean"))):
            f.write("import Kitoken.Theorems.%s\n" % os.path.basename(extra)[:-5])
        for n in names:
            f.write("#print axioms Kitoken.%s.%s\n" % (prop, n))
    rc, out = sh(["lake", "env", "lean", path], cwd=LEAN, timeout=1800)
    per = {}
    cur = None
    # output: "'Kitoken.C13.foo' depends on axioms: [propext, Quot.sound]" or "... does not depend on any axioms"
    for m in re.finditer(r"'Kitoken\.%s\.([^']+)' (does not depend on any axioms|depends on axioms: \[([^\]]*)\])" % prop,
                         out.replace("\n", " ")):
        axs = [a.strip() for a in (m.group(3) or "").split(",") if a.strip()]
        per[m.group(1)] = axs
    bad = {n: [a for a in axs if a not in ALLOWED_AXIOMS] for n, axs in per.items()}
    bad = {n: a for n, a in bad.items() if a}
    unprinted = [n for n in names if n not in per]
    grep_hits = []
    for fpath in lean_sources_for_audit():
        try:
            src = strip_comments(open(fpath).read())
        except OSError:
            continue
        for i, line in enumerate(src.split("\n")):
            if FORBIDDEN.search(line):
                grep_hits.append("%s:%d: %s" % (os.path.relpath(fpath, LEAN), i + 1, line.strip()[:120]))
    leanchecker = None
    if thorough and rc == 0:
        rc2, out2 = sh(["lake", "env", "leanchecker", "Kitoken.Theorems." + prop], cwd=LEAN, timeout=3600)
        leanchecker = {"rc": rc2, "log": out2[-1000:]}
    ok = rc == 0 and not bad and not unprinted and not grep_hits and not missing and len(names) > 0 \
        and (leanchecker is None or leanchecker["rc"] == 0)
    report["audit"] = {"ok": ok, "theorems": names, "axioms": per, "bad_axioms": bad, "unprinted": unprinted,
                       "forbidden_hits": grep_hits, "missing_expected": missing, "leanchecker": leanchecker,
                       "log": out[-3000:] if rc != 0 else ""}
    return ok


KVH_PLAIN = os.path.join(BUILD, "cargo-plain", "debug", "kvh")
PYDIR = os.path.join(BUILD, "py")


def build_harness(report, prop=None):
    rc, out = sh(["cargo", "build", "--offline"], cwd=HARNESS, timeout=3600)
    report["cargo_build"] = {"ok": rc == 0, "log": out[-6000:] if rc != 0 else ""}
    if rc == 0 and prop == "C19":
        # second build of the same harness against the same tree, without CPU dispatch (multiversion)
        rc, out = sh(["cargo", "build", "--offline", "--no-default-features", "--target-dir", os.path.join(BUILD, "cargo-plain")],
                     cwd=HARNESS, timeout=3600)
        report["cargo_build_plain"] = {"ok": rc == 0, "log": out[-6000:] if rc != 0 else ""}
        if rc != 0:
            report["cargo_build"] = {"ok": False, "log": "plain build failed: " + out[-6000:]}
    if rc == 0 and prop == "C20":
        # the Python extension module, built from /repo's working tree into /verif/build (never /repo/target)
        rc, out = sh(["cargo", "build", "--offline", "-p", "kitoken-python", "--target-dir", os.path.join(BUILD, "cargo-py"),
                      "--config", "profile.dev.opt-level=1", "--config", 'profile.dev.package."*".opt-level=2',
                      "--config", "profile.dev.debug=false"], cwd=REPO, timeout=3600)
        report["cargo_build_python"] = {"ok": rc == 0, "log": out[-6000:] if rc != 0 else ""}
        if rc == 0:
            os.makedirs(PYDIR, exist_ok=True)
            shutil.copyfile(os.path.join(BUILD, "cargo-py", "debug", "libkitoken.so"), os.path.join(PYDIR, "kitoken.abi3.so"))
        else:
            report["cargo_build"] = {"ok": False, "log": "python binding build failed: " + out[-6000:]}
    return rc == 0


def run_driver_sharded(ops_files, out_dir):
    """Runs one driver process per ops file, up to NCPU in parallel. Returns list of output paths."""
    procs, outs = [], []
    pending = list(ops_files)
    running = []
    results = {}
    while pending or running:
        while pending and len(running) < NCPU:
            f = pending.pop(0)
            o = os.path.join(out_dir, os.path.basename(f) + ".out")
            p = subprocess.Popen([KDRIVER], stdin=open(f), stdout=open(o, "w"), stderr=subprocess.PIPE)
            running.append((p, f, o))
        still = []
        for p, f, o in running:
            if p.poll() is None:
                still.append((p, f, o))
            else:
                results[f] = (o, p.returncode, p.stderr.read().decode(errors="replace")[-2000:])
        running = still
        if running:
            time.sleep(0.05)
    return results


def split_line(line):
    """'OP args :: impl' -> (request, impl)"""
    if " :: " in line:
        a, b = line.split(" :: ", 1)
        return a.strip(), b.strip()
    return line.strip(), ""


def load_known():
    path = os.path.join(ROOT, "known_findings.json")
    if not os.path.exists(path):
        return []
    return json.load(open(path)).get("findings", [])


def matches_known(prop, request, known, verdict=""):
    for k in known:
        if k.get("status") != "known" or prop not in k.get("properties", []):
            continue
        pat = k.get("match_request_regex")
        vpat = k.get("match_verdict_regex")
        if pat and re.search(pat, request) and (not vpat or re.search(vpat, verdict)):
            return k
    return None


def write_replay(prop, kind, payload):
    d = os.path.join(ROOT, "replays")
    os.makedirs(d, exist_ok=True)
    h = hashlib.sha1(json.dumps(payload, sort_keys=True).encode()).hexdigest()[:10]
    path = os.path.join(d, "%s_%s_%s.json" % (prop, kind, h))
    json.dump(payload, open(path, "w"), indent=1)
    return path


def search_failing_input(prop, tier, seed, work, known, budget_s, gen_env):
    """DESIGN.md §3: the tie broke (implementation and model disagree) but no request of this run failed the
    specification. Searches further inputs for one that does: the thorough generator with this seed (when the tier
    is quick), then the generators under other seeds, within a time budget. Returns (entry or None, log)."""
    t_end = time.time() + budget_s
    attempts = []
    plan = ([("thorough", seed)] if tier == "quick" else []) + [(tier, seed + 1000 + i) for i in range(1, 50)]
    for n, (t, sd) in enumerate(plan):
        left = t_end - time.time()
        if left < 20:
            break
        d = os.path.join(work, "search%d" % n)
        os.makedirs(d, exist_ok=True)
        try:
            rc, out = sh([KVH, "gen", prop, t, str(sd), os.path.join(d, "gen")], timeout=left, env=gen_env)
        except subprocess.TimeoutExpired:
            attempts.append({"tier": t, "seed": sd, "result": "generator timed out"})
            # whatever shards were written completely are still searched
            rc = 0
        files = sorted(glob.glob(os.path.join(d, "gen*.ops")))
        results = run_driver_sharded(files, d)
        n_req = 0
        for f in files:
            o = results[f][0]
            slot_defs = {}
            with open(f) as fi, open(o) as fo:
                for line, ans in zip(fi.read().split("\n"), fo.read().split("\n")):
                    if not line:
                        continue
                    request, impl = split_line(line)
                    if request.startswith("DEF "):
                        slot = request.split(" ", 2)[1]
                        if request.split(" ")[2] == "NEW":
                            slot_defs[slot] = []
                        slot_defs.setdefault(slot, []).append(request + (" :: " + impl if impl else ""))
                    elif request.split(" ", 1)[0] in SLOT_STATE_OPS:
                        slot_defs.setdefault(request.split(" ", 2)[1], []).append(request)
                    if impl == "" or " || " not in ans:
                        continue
                    n_req += 1
                    model, verdict = ans.split(" || ", 1)
                    if verdict.startswith("FAILS") and not matches_known(prop, request, known, verdict):
                        entry = {"request": request, "impl": impl, "model": model, "spec": verdict}
                        if request.split(" ", 1)[0] in SLOT_OPS:
                            entry["context"] = slot_defs.get(request.split(" ")[1], [])
                        attempts.append({"tier": t, "seed": sd, "requests": n_req, "result": "failing input found"})
                        return entry, attempts
        attempts.append({"tier": t, "seed": sd, "requests": n_req, "result": "no request fails the specification"})
        shutil.rmtree(d, ignore_errors=True)
    return None, attempts


def main():
    if len(sys.argv) < 3:
        print(__doc__)
        sys.exit(2)
    prop = sys.argv[1]
    if prop not in props.PROPS:
        print("unknown property", prop)
        sys.exit(2)
    if sys.argv[2] == "--replay":
        return replay(prop, sys.argv[3])
    tier = sys.argv[2]
    tier = os.environ.get("VERIF_TIER", tier) if tier not in ("quick", "thorough") else tier
    thorough = tier == "thorough"
    seed = int(os.environ.get("VERIF_SEED", "1"))
    meta = props.PROPS[prop]
    t0 = time.time()
    report = {"property": prop, "tier": tier, "seed": seed}
    os.makedirs(BUILD, exist_ok=True)
    os.makedirs(os.path.join(ROOT, "evidence"), exist_ok=True)
    work = os.path.join(BUILD, "run", "%s_%s_%d" % (prop, tier, os.getpid()))
    shutil.rmtree(work, ignore_errors=True)
    os.makedirs(work)

    with Lock("lean"):
        extract_ok = run_extract(report)
        build_lean(prop, report)
        audit_ok = audit(prop, report, thorough) if report["proof_ok"] else False
        if not report["proof_ok"]:
            report["audit"] = {"ok": False, "theorems": theorem_names(prop), "axioms": {}, "skipped": "build failed"}
    with Lock("cargo"):
        cargo_ok = build_harness(report, prop)

    # ---- correspondence ----------------------------------------------------------------------
    cases = {"evaluations": 0, "impl_vs_model": [], "impl_vs_spec": [], "driver_errors": [], "known": []}
    distinct = set()
    nontrivial = 0
    samples = []
    dist = {}
    known = load_known()
    if cargo_ok and report.get("driver_ok"):
        ops_files = []
        # corpus first (requests only; the harness recomputes the implementation's answers)
        corpus = sorted(glob.glob(os.path.join(ROOT, "corpus", prop, "*.ops")))
        for i, c in enumerate(corpus):
            o = os.path.join(work, "corpus%03d.ops" % i)
            rc, out = sh([KVH, "run", c, o], timeout=3600)
            if rc != 0:
                cases["driver_errors"].append("kvh run %s failed: %s" % (c, out[-500:]))
            else:
                ops_files.append(o)
        gen_env = {"KVH_SHARDS": str(NCPU), "KVH_PLAIN": KVH_PLAIN, "KVH_PYDIR": PYDIR,
                   "KVH_PYDRIVE": os.path.join(ROOT, "tools", "pydrive.py")}
        rc, out = sh([KVH, "gen", prop, tier, str(seed), os.path.join(work, "gen")], timeout=6 * 3600, env=gen_env)
        if rc != 0:
            cases["driver_errors"].append("kvh gen failed rc=%d: %s" % (rc, out[-2000:]))
        report["gen_log"] = out[-3000:]
        ops_files += sorted(glob.glob(os.path.join(work, "gen*.ops")))
        results = run_driver_sharded(ops_files, work)
        for f in ops_files:
            o, drc, err = results[f]
            if drc != 0:
                cases["driver_errors"].append("driver rc=%d on %s: %s" % (drc, os.path.basename(f), err))
            with open(f) as fi, open(o) as fo:
                ins = fi.read().split("\n")
                outs = fo.read().split("\n")
            if ins and ins[-1] == "":
                ins.pop()
            if outs and outs[-1] == "":
                outs.pop()
            if len(ins) != len(outs):
                cases["driver_errors"].append("driver answered %d of %d lines in %s" % (len(outs), len(ins), os.path.basename(f)))
            slot_defs = {}
            for line, ans in zip(ins, outs):
                request, impl = split_line(line)
                if request.startswith("DEF "):
                    slot = request.split(" ", 2)[1]
                    if request.split(" ")[2] == "NEW":
                        slot_defs[slot] = []
                    slot_defs.setdefault(slot, []).append(request + (" :: " + impl if impl else ""))
                elif request.split(" ", 1)[0] in SLOT_STATE_OPS:
                    # further state of a slot (parsed source of a converter check)
                    slot_defs.setdefault(request.split(" ", 2)[1], []).append(request)
                if impl == "":     # state-setting line (DEF …): driver must acknowledge
                    if not ans.startswith("ACK"):
                        cases["driver_errors"].append("no ACK for %s: %s" % (request[:80], ans[:200]))
                    continue
                cases["evaluations"] += 1
                op = request.split(" ", 1)[0]
                dist[op] = dist.get(op, 0) + 1
                if " || " in ans:
                    model, verdict = ans.split(" || ", 1)
                else:
                    model, verdict = ans, "NO-VERDICT"
                h = hashlib.blake2b(request.encode(), digest_size=8).digest()
                if h not in distinct:
                    distinct.add(h)
                    if props.nontrivial(prop, request, impl):
                        nontrivial += 1
                k = impl.split(" ", 1)[0]
                dist["impl:" + k] = dist.get("impl:" + k, 0) + 1
                if "loadable-wf=" in verdict:
                    # hypotheses of loaded_tokenizer_never_panics evaluated on this definition (non-vacuity evidence)
                    key = "definitions_accepted_and_LoadableWF" if (impl.startswith("OK") and verdict.endswith("=1")) else \
                          ("definitions_accepted_not_LoadableWF" if impl.startswith("OK") else "definitions_rejected")
                    dist[key] = dist.get(key, 0) + 1
                if len(samples) < 6 and (cases["evaluations"] % 997 == 1):
                    samples.append({"request": request[:400], "impl": impl[:200], "model": model[:200], "spec": verdict[:80]})
                entry = {"request": request, "impl": impl, "model": model, "spec": verdict, "file": os.path.basename(f)}
                if op in SLOT_OPS:
                    entry["context"] = slot_defs.get(request.split(" ")[1], [])
                spec_fail = verdict.startswith("FAILS") or verdict == "NO-VERDICT" or model in ("BAD-OP", "MISS")
                if verdict.startswith("FAILS"):
                    kf = matches_known(prop, request, known, verdict)
                    if kf:
                        cases["known"].append((kf["id"], entry))
                    else:
                        cases["impl_vs_spec"].append(entry)
                if model != impl and model != "SKIP":
                    kf = matches_known(prop, request, known, verdict)
                    if kf and verdict.startswith("FAILS"):
                        pass
                    else:
                        cases["impl_vs_model"].append(entry)
    else:
        cases["driver_errors"].append("correspondence not run: cargo_ok=%s driver_ok=%s" % (cargo_ok, report.get("driver_ok")))

    # ---- decision (DESIGN.md §3) -------------------------------------------------------------
    violations = []
    seen_known = {}
    for kid, entry in cases["known"]:
        seen_known.setdefault(kid, entry)
    for kid, entry in seen_known.items():
        k = [x for x in known if x["id"] == kid][0]
        print("KNOWN-FINDING: property=%s %s (e.g. %s)" % (prop, k["what"], entry["request"][:160]))
    searched = None
    if cases["impl_vs_model"] and not cases["impl_vs_spec"] and cargo_ok and report.get("driver_ok"):
        # the tie broke without a failing input in this run: search for one (bounded; DESIGN.md §3)
        budget = int(os.environ.get("VERIF_SEARCH_S", "600" if thorough else "240"))
        found, searched = search_failing_input(prop, tier, seed, work, known, budget, gen_env)
        report["search"] = searched
        if found:
            found["found_by_search"] = searched[-1]
            cases["impl_vs_spec"].append(found)
    if cases["impl_vs_spec"]:
        e = cases["impl_vs_spec"][0]
        payload = {"property": prop, "kind": "implementation violates the specification",
                   "ops": e.get("context", []) + [e["request"]], "impl": e["impl"], "model": e["model"],
                   "spec_verdict": e["spec"], "seed": seed, "tier": tier,
                   "more": [x["request"] for x in cases["impl_vs_spec"][1:20]]}
        if e.get("found_by_search"):
            payload["found_by"] = {"search_after_broken_correspondence": searched,
                                   "first_disagreements": [{k: v for k, v in x.items() if k != "context"}
                                                           for x in cases["impl_vs_model"][:3]]}
        path = write_replay(prop, "spec", payload)
        violations.append("VIOLATION property=%s replay=%s" % (prop, path))
    elif cases["impl_vs_model"] or cases["driver_errors"] or not extract_ok or not report["proof_ok"] \
            or not report["audit"].get("ok") or not cargo_ok:
        broken = []
        if not extract_ok:
            broken.append("translator (tools/extract.py) could not re-derive Generated/*.lean from the source")
        if not report["proof_ok"]:
            broken.append("lake build Kitoken.Theorems.%s failed: a proof obligation no longer checks" % prop)
        elif not report["audit"].get("ok"):
            broken.append("axiom audit failed: %s" % json.dumps({k: report["audit"].get(k) for k in
                          ("bad_axioms", "unprinted", "forbidden_hits", "missing_expected", "leanchecker")}))
        if not cargo_ok:
            broken.append("harness does not build against the working tree: correspondence cannot run")
        if cases["driver_errors"]:
            broken.append("correspondence errors: " + "; ".join(cases["driver_errors"][:5]))
        if cases["impl_vs_model"]:
            broken.append("implementation and model disagree on %d case(s) where the spec verdict did not fail"
                          % len(cases["impl_vs_model"]))
        payload = {"property": prop, "kind": "proof obligation or correspondence no longer checks",
                   "broken": broken, "seed": seed, "tier": tier,
                   "ops": (cases["impl_vs_model"][0].get("context", []) if cases["impl_vs_model"] else []) +
                          [x["request"] for x in cases["impl_vs_model"][:20]
                           if x.get("context") == cases["impl_vs_model"][0].get("context")],
                   "disagreements": [{k: v for k, v in x.items() if k != "context"} for x in cases["impl_vs_model"][:5]],
                   "search_for_failing_input": searched if searched is not None else "not run (nothing to run it on)",
                   "logs": {"lake": report.get("lake_build", {}).get("log"), "extract": report.get("extract", {}).get("log", "")[-1500:],
                            "cargo": report.get("cargo_build", {}).get("log", "")[-1500:]}}
        path = write_replay(prop, "tie", payload)
        violations.append("VIOLATION property=%s replay=%s no-failing-input-found" % (prop, path))

    # ---- evidence ----------------------------------------------------------------------------
    names = report["audit"].get("theorems", [])
    discharged = len([n for n in names if n in report["audit"].get("axioms", {})
                      and not report["audit"].get("bad_axioms", {}).get(n)]) if report["proof_ok"] else 0
    level = meta["level"]
    coverage = {
        "evaluations": cases["evaluations"],
        "distinct_nontrivial": nontrivial,
        "rule": meta["rule"],
        "samples": samples or [{"note": "no correspondence case was run"}],
        "obligations": max(len(names), 1),
        "discharged": discharged,
        "checker_cmd": "cd /verif/lean && lake build Kitoken.Theorems.%s && lake env lean ../build/audit/%s.lean  (#print axioms)%s"
                       % (prop, prop, "; lake env leanchecker Kitoken.Theorems." + prop if thorough else ""),
        "trusted_base": meta["trusted_base"],
        "theorems": names,
        "axioms_used": sorted({a for v in report["audit"].get("axioms", {}).values() for a in v}),
        "programs": 1,
        "disagreements_checked": len(cases["impl_vs_model"]),
        "explanation": meta["explanation"],
        "exhaustive": False,
        "distribution": dist,
        "distinct_requests": len(distinct),
        "impl_vs_model_disagreements": len(cases["impl_vs_model"]),
        "impl_vs_spec_failures": len(cases["impl_vs_spec"]),
        "known_findings_seen": sorted(seen_known.keys()),
        "translator_ok": extract_ok, "proof_build_ok": report["proof_ok"], "axiom_audit_ok": report["audit"].get("ok", False),
    }
    if searched is not None:
        coverage["failing_input_search"] = searched
    gl = report.get("gen_log", "")
    m = re.search(r"^COVERAGE (\{.*\})$", gl, re.M)
    if m:
        try:
            coverage["generator"] = json.loads(m.group(1))
            if coverage["generator"].get("exhaustive"):
                coverage["exhaustive_part"] = coverage["generator"]["exhaustive"]
        except ValueError:
            pass
    ev = {"property_id": prop, "tier": tier, "seed": seed, "level": level, "coverage": coverage,
          "assumptions": meta["assumptions"], "wall_s": round(time.time() - t0, 1), "violations": len(violations)}
    json.dump(ev, open(os.path.join(ROOT, "evidence", prop + ".json"), "w"), indent=1)
    shutil.rmtree(work, ignore_errors=True)
    print("%s %s: theorems %d/%d, cases %d (distinct %d, non-trivial %d), impl!=model %d, spec-fail %d, known %d, %.0fs"
          % (prop, tier, discharged, len(names), cases["evaluations"], len(distinct), nontrivial,
             len(cases["impl_vs_model"]), len(cases["impl_vs_spec"]), len(seen_known), time.time() - t0))
    for v in violations:
        print(v)
    sys.exit(1 if violations else 0)


def replay(prop, path):
    """Re-runs the ops of a replay file (or a plain .ops file) on the implementation, model and spec."""
    ops = []
    if path.endswith(".json"):
        ops = json.load(open(path)).get("ops", [])
    else:
        ops = [split_line(l)[0] for l in open(path).read().split("\n") if l.strip()]
    work = os.path.join(BUILD, "run", "replay_%d" % os.getpid())
    os.makedirs(work, exist_ok=True)
    with Lock("lean"):
        sh(["lake", "build", "kdriver"], cwd=LEAN)
    with Lock("cargo"):
        rc, out = sh(["cargo", "build", "--offline"], cwd=HARNESS)
        if rc != 0:
            print(out[-3000:])
            sys.exit(2)
    src = os.path.join(work, "in.ops")
    open(src, "w").write("\n".join(ops) + "\n")
    dst = os.path.join(work, "re.ops")
    rc, out = sh([KVH, "run", src, dst])
    if rc != 0:
        print(out)
        sys.exit(2)
    res = run_driver_sharded([dst], work)
    o = res[dst][0]
    bad = 0
    for line, ans in zip(open(dst).read().split("\n"), open(o).read().split("\n")):
        if not line:
            continue
        request, impl = split_line(line)
        print("REQUEST", request[:2000])
        print("  IMPL ", impl[:2000])
        print("  MODEL", ans[:2000])
        if impl and (" || FAILS" in ans or ans.split(" || ")[0] != impl):
            bad += 1
    shutil.rmtree(work, ignore_errors=True)
    if bad:
        print("VIOLATION property=%s replay=%s" % (prop, path))
    sys.exit(1 if bad else 0)


if __name__ == "__main__":
    main()
