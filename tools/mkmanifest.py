#!/usr/bin/env python3
"""Writes MANIFEST.json from tools/props.py and tools/manifest_meta.py (single source of truth)."""
import json, os, sys
ROOT = os.path.dirname(os.path.dirname(os.path.abspath(__file__)))
sys.path.insert(0, os.path.join(ROOT, "tools"))
import props, manifest_meta as mm

ALL = ["C%02d" % i for i in range(1, 21)]
checks = []
for pid in ALL:
    if pid not in props.PROPS or pid not in mm.CLAIMS:
        continue
    c = mm.CLAIMS[pid]
    checks.append({
        "property_id": pid,
        "quick_cmd": "./check %s quick" % pid,
        "thorough_cmd": "./check %s thorough" % pid,
        "evidence_file": "/verif/evidence/%s.json" % pid,
        "replay_cmd_template": "./check %s --replay {path}" % pid,
        "engine": "lean4-proof+correspondence",
        "level_claimed": {"category": props.PROPS[pid]["level"], "text": c["text"], "design_ref": c["design_ref"]},
        "level_note": c["note"],
        "technique": c["technique"],
    })
na = [{"property_id": pid, "reason": mm.NOT_YET.get(pid, "check not built yet in this session; planned per DESIGN.md §6")}
      for pid in ALL if pid not in [c["property_id"] for c in checks]]
manifest = {
    "version": 1,
    "setup_cmd": "./tools/setup.sh",
    "hooks": {
        "guard": "verif-hooks",
        "enable": "cargo feature: the harness crate depends on kitoken (path /repo) with features = [..., \"verif-hooks\"]",
        "baseline_off_cmd": "cd /repo && cargo test --workspace --no-fail-fast --offline",
        "source_commits": mm.HOOK_COMMITS,
        "add_only": False,
    },
    "engines": [{
        "name": "lean4-proof+correspondence",
        "path": "/verif/lean (model, spec, theorems, driver), /verif/harness (Rust correspondence harness), /verif/tools (translator, orchestrator)",
        "serves_properties": [c["property_id"] for c in checks],
        "kind_free_text": "Lean 4 theorems over a hand-written executable model; model tied to /repo on every run by a translator "
                          "(constants/tables regenerated from source) and a differential correspondence check (real code vs model vs spec)",
    }],
    "checks": checks,
    "not_applicable": na,
    "notes": mm.NOTES,
}
json.dump(manifest, open(os.path.join(ROOT, "MANIFEST.json"), "w"), indent=1)
print("MANIFEST.json: %d checks, %d not claimed" % (len(checks), len(na)))
