HOOK_COMMITS = ["c20e566", "84450b7"]
NOTES = ("Every check runs: translator -> lake build of the property's theorem module and the driver -> #print axioms audit -> "
         "cargo build of the harness against /repo's working tree with verif-hooks -> corpus + generated correspondence cases. "
         "hooks.add_only is false because two functions in src/regex.rs bind their result to a local before returning it so that "
         "the hook can record the value actually returned (no line is deleted, behaviour is unchanged).")
NOT_YET = {}
CLAIMS = {
    "C15": {
        "text": "Machine-checked Lean theorems over models of all four converters' vocabulary paths: byte-level placeholder table "
                "bijective and inverted on every byte string; <0xNN> parsing exact; Tiktoken from raw bytes (lines, canonical base64, "
                "decimal ids) keeps every entry, id and order; Tekken keeps every token inside the declared size, invents nothing, "
                "ids disjoint from specials; Tokenizers (BPE / Unigram / WordPiece) and SentencePiece (BPE / Unigram): nothing lost "
                "except duplicates and unused pieces, nothing invented, unigram scores aligned, repair of colliding special ids, result "
                "independent of hash iteration order; detection chain; soundness of the checker keepsCheck. Every shipped and generated "
                "source is converted by the real code, parsed independently and judged by keepsCheck; the converter models are compared "
                "with the implementation's output (CONVTT, CONVTK, CONVHF, CONVSP, LOADTT, BYTETAB, BYTEPIECE).",
        "design_ref": "DESIGN.md §6 C15, §10.4",
        "note": "PARTIAL in one respect: the translation of normalizers, pre-tokenizers, decoders and post-processors by the "
                "SentencePiece and Tokenizers converters is not modelled (behaviourally covered by C16 on the shipped models only). "
                "Modelling and proving the vocabulary paths found four defects in the converter (F18, F22, F23, F24), all repaired.",
        "technique": "Lean 4 proof over executable models of the converters' vocabulary paths + differential correspondence with independent source parsers",
    },
    "C20": {
        "text": "PARTIAL (pyo3 glue not modelled). Machine-checked Lean theorems over a model of the wrapper as written in "
                "packages/python/src/lib.rs: default flag off, single calls transparent, batch calls = list of single calls or first error "
                "in order, no crash unless the core panics (excluded by C18). The real extension module, built from the working tree, is "
                "driven under CPython on all shipped models through every constructor; every answer is compared with the core library's "
                "and with the Lean model's.",
        "design_ref": "DESIGN.md §6 C20",
        "note": "Partial: argument conversion, GIL handling, serde_pyobject and the allocator are runtime glue outside the model; they are "
                "exercised by the runs (including inputs only Python can produce) but not proved.",
        "technique": "Lean 4 proof over a wrapper model + differential correspondence (CPython extension module vs core library vs Lean model)",
    },
    "C16": {
        "text": "PARTIAL. Finite part (22 convertible reference models x 3 recorded corpora): decided by evaluating the implementation and "
                "the compiled Lean model on every recorded input on every run and comparing both with the record - an exhaustive evaluation "
                "of a finite table, not a theorem. For-all part (three Llama 2 sources): Lean theorems that a tokenizer is independent of "
                "metadata (native file = SentencePiece conversion on every input, fields compared each run) and that the two whitespace-"
                "marker normalizations agree on every text; equality of the JSON-converted source on all texts is explored by generation.",
        "design_ref": "DESIGN.md §6 C16",
        "note": "A kernel proof over 30k-250k-entry vocabularies is out of reach (decide does not scale); the recorded table is finite and "
                "is evaluated completely. The Tokenizers-vs-SentencePiece Llama 2 equality depends on that vocabulary's merges and has no "
                "general theorem.",
        "technique": "Exhaustive evaluation of the finite recorded table on implementation and Lean model (correspondence) + Lean 4 theorems for source equivalence",
    },
    "C17": {
        "text": "PARTIAL (foreign parsers not modelled). Machine-checked Lean theorems for every byte string on the modelled loaders: the "
                "character-map blob loader never panics and checks its size field; decoding a native file never reads past the input, "
                "never yields more elements than input bytes, rejects every proper prefix of a valid file, wrong headers and invalid "
                "regexes. The four foreign-format loaders and auto-detection are decided by structure-aware generation and mutation of "
                "generated and shipped files on the real code in child processes.",
        "design_ref": "DESIGN.md §6 C17",
        "note": "Partial: the protobuf / JSON / base64 parsing and the converters' logic are outside the Lean model; for them the check is "
                "a mutation campaign on the implementation, not a theorem. Memory exhaustion through declared sizes is excluded by the property.",
        "technique": "Lean 4 proof over executable model (native format, character map) + differential correspondence; mutation runs of the real loaders for foreign formats",
    },
    "C19": {
        "text": "PARTIAL (runtime concurrency not modelled). Machine-checked Lean theorems over the session model: answers are independent "
                "of history, order and interleaving; the source has exactly the one lazily initialised static the model lists "
                "(regenerated on every run); export is independent of hash iteration order. The implementation's answers under 2-16 "
                "threads, call histories, fresh processes and the build without CPU dispatch are compared with the model and with "
                "isolated calls.",
        "design_ref": "DESIGN.md §6 C19",
        "note": "Partial: data races, memory ordering and the regex engine's internal caches are runtime behaviour the model cannot "
                "exhibit; only the interleavings the scheduler happens to run are observed.",
        "technique": "Lean 4 proof over a session (state-machine) model + translator-regenerated list of state sites + differential correspondence under threads, processes and two builds",
    },
    "C14": {
        "text": "Machine-checked Lean theorems: the wire layout of the model equals the layout extracted from the Rust source on every run; "
                "binary round trip for every representable definition (all fields, bit-exact scores); same bytes on re-serialization; "
                "magic/version checks; exporting a canonically ordered definition returns it for every hash iteration order; every export "
                "returns the specials in the listed order with the same configuration (export_keeps_specials; the code had to be repaired "
                "for this, F25 4b5b4e8); every tokenizer the constructor builds can export its definition (export_ok_of_init; repair F27 7f48d88). "
                "Model tied to "
                "the real serializer and exporter byte for byte on shipped and generated definitions covering every variant.",
        "design_ref": "DESIGN.md §6 C14",
        "note": "Trusted: Lean kernel + 3 standard axioms; translator (tools/extract.py) for the layout; postcard wire details (varint limits, "
                "tags, char-as-string) are modelled from reading postcard 1.1.3 and tied by correspondence; behaviour equality of rebuilt "
                "tokenizers is measured (IMPLEQ rebuilt-behaves-alike on every generated definition, specials listed in and out of Ord "
                "order), the congruence argument is not a separate theorem.",
        "technique": "Lean 4 proof over executable model + translator-regenerated layout + differential correspondence",
    },
    "C18": {
        "text": "PARTIAL (regex oracle). Machine-checked Lean theorems encode_never_panics and decode_never_panics: on every well-formed "
                "tokenizer, every valid UTF-8 text / every id sequence and sane external libraries (ExtSane) the model pipeline never "
                "panics and never slices off a character boundary. Whole pipeline run on generated well-formed definitions and all "
                "shipped models with overflow checks on, incl. adversarial texts up to 256 KiB.",
        "design_ref": "DESIGN.md §6 C18",
        "note": "Partial: totality of fancy-regex (backtrack limit) and of the Unicode libraries is assumed; process aborts are detected only "
                "as a dying generator; memory safety of the three unsafe sites beyond the index/UTF-8 facts proved is not modelled.",
        "technique": "Lean 4 proof over executable model + differential correspondence with the Rust implementation",
    },
    "C03": {
        "text": "Machine-checked Lean theorems for every vocabulary, rank function (u32), piece, unit list and scratch-buffer prefix: "
                "linear cached-rank loop = naive canonical merge (linear_eq_spec_partial), heap loop = the same (heap_eq_spec_partial), "
                "strategy_independent (no hypothesis on ranks), shortcut_iff, spec_fixpoint. Model tied to src/encoder/bytepair.rs by "
                "differential runs incl. exhaustive small vocabularies with long-padded pieces.",
        "design_ref": "DESIGN.md §6 C03",
        "note": "Trusted: Lean kernel + {propext, Classical.choice, Quot.sound}; harness generators; the indexed heap's prior/after links "
                "are abstracted to list adjacency (guarded by correspondence only). '_partial' = hypothesis that ranks fit u32, always "
                "true of the code's TokenRank.",
        "technique": "Lean 4 proof over executable model + differential correspondence with the Rust implementation",
    },
    "C04": {
        "text": "Machine-checked Lean theorems generic in the cost type: unigram_walk (structure of every encoding, all fallbacks, no cost "
                "laws) and viterbi_optimal (for every vocabulary, scores of either sign, every segmentable piece: the result is a "
                "segmentation of minimal cost - no bound on costs) and unigram_stretch_optimal (also when the piece cannot be "
                "segmented, every run of entries before, between and after the holes is a cheapest segmentation of the text it "
                "covers, measured from the value the run starts with). The code had to be repaired for this to be true (F13, restart value "
                "1e6; fix commit 8176aef); the pre-repair statement viterbi_optimal_partial and its counterexample are kept. Model tied to "
                "src/encoder/unigram.rs by differential runs judged by an independent dynamic program.",
        "design_ref": "DESIGN.md §6 C04, §7 F13, §10.4",
        "note": "Float cost laws (monotone subtraction, total preorder without NaN) are an IEEE-754 assumption: the theorems are proved "
                "for every lawful cost type and instantiated with Int in examples; Float is used only in the driver.",
        "technique": "Lean 4 proof over executable model + differential correspondence with the Rust implementation",
    },
    "C05": {
        "text": "Machine-checked Lean theorems for every start/continuation map, word (valid UTF-8 or not), length limit and fallback: "
                "encoder loop = greedy longest-match-first specification (wordpiece_eq_greedy), atomic failure (failure_is_atomic, "
                "failWord_shape), guards, and greedy_spells (tokens tile the word). Model tied to src/encoder/wordpiece.rs by "
                "differential runs on exhaustive short words, random long words and the shipped BERT/GTE vocabularies.",
        "design_ref": "DESIGN.md §6 C05",
        "note": "Trusted: Lean kernel + {propext, Classical.choice, Quot.sound}; harness generators; the vocabulary split by prefix "
                "(WordPiece::new) is modelled and tied by correspondence, not proved from the hash-map construction.",
        "technique": "Lean 4 proof over executable model + differential correspondence with the Rust implementation",
    },
    "C08": {
        "text": "Machine-checked Lean theorems, for every id sequence, decoder map, mode and prefix: decode = flatMap of id bytes "
                "(decode_direct_eq_flatMap), homomorphism (decode_append), first invalid id (decode_error_first_invalid), totality "
                "(decode_total), control filter (control_filtered_iff), vocabulary shadows specials, exact prefix-mode spacing "
                "(prefix_spacing). Model tied to src/decoder.rs / Kitoken::decode by differential runs on generated and shipped definitions.",
        "design_ref": "DESIGN.md §6 C08",
        "note": "Trusted: Lean kernel + {propext, Classical.choice, Quot.sound}; harness generators; hash maps modelled as finite maps; "
                "regex clean-up steps are oracle-backed.",
        "technique": "Lean 4 proof over executable model + differential correspondence with the Rust implementation",
    },
    "C10": {
        "text": "Machine-checked Lean theorems for all match lists / texts: grouping equalities for the six behaviours, tilings, order, "
                "boundaries_subset_partial, literal_matches_chain, string_matches_aligned (incl. the empty pattern), char_eq_string, "
                "split_ordered, chain_refines, config_split_ordered. Model tied to src/config/split.rs by differential runs incl. "
                "exhaustive multi-byte strings; two genuine defects found and repaired (F1, F15).",
        "design_ref": "DESIGN.md §6 C10",
        "note": "Trusted: Lean kernel + {propext, Classical.choice, Quot.sound}; regex and Unicode-script results are oracles (assumed "
                "MatchesSane, validated at run time); character alignment of regex matches is inherited from the regex engine, not proved.",
        "technique": "Lean 4 proof over executable model + differential correspondence with the Rust implementation",
    },
    "C01": {
        "text": "Machine-checked Lean theorems: the whitespace-marker normalizations are inverted by their decode clean-up for every text "
                "without the marker; for byte-complete byte-level BPE decoding the encoding of any part list returns exactly the parts' texts "
                "(no fallback arm reachable); the second pass preserves text under tiling splits. End-to-end round trip on generated and "
                "15 shipped byte-complete tokenizers is tied by RT runs with a round-trip verdict.",
        "design_ref": "DESIGN.md §6 C01",
        "note": "Trusted: Lean kernel + 3 standard axioms; NFC for NeoX/MPT/ModernBERT and all regexes are oracles (statement modulo NFC).",
        "technique": "Lean 4 proof over executable model + differential correspondence with the Rust implementation",
    },
    "C02": {
        "text": "Machine-checked Lean theorems (all vocabularies, pieces, fallback lists, buffer states): every final segment is accounted "
                "for in order and the segments concatenate to the piece, for BPE, Unigram and WordPiece; without fallback the tokens spell the "
                "piece exactly. Whole pipeline tied to src/lib.rs and the encoders by differential runs with a spelling verdict.",
        "design_ref": "DESIGN.md §6 C02",
        "note": "Trusted: Lean kernel + 3 standard axioms; harness generators; external regex/Unicode calls are oracle tables.",
        "technique": "Lean 4 proof over executable model + differential correspondence with the Rust implementation",
    },
    "C06": {
        "text": "Machine-checked Lean theorems: the three encoders follow the fallback chain specification for every fallback list "
                "(head-first, Bytes continues with the tail on exactly the unencodable segment in byte order, Unknown only if defined, Skip, "
                "error with the bytes, no partial result) and never panic; for Unigram the encodable neighbours of a hole are unaffected "
                "(unigram_neighbours_unaffected: each run of entries around the holes is a cheapest segmentation of its own text). Tied to the encoders by differential runs on vocabularies with holes.",
        "design_ref": "DESIGN.md §5, §6 C06",
        "note": "Trusted: Lean kernel + 3 standard axioms; harness generators. Two genuine defects found and repaired (F5, F7).",
        "technique": "Lean 4 proof over executable model + differential correspondence with the Rust implementation",
    },
    "C07": {
        "text": "Machine-checked Lean theorems: the special-token scan is leftmost-first and aligned; both passes equal a cut-wise "
                "specification in which each side of a special token is handled by itself; with encoding off no part carries a control id; "
                "special parts are atomic; priority/unknown specials are recognized in both modes; only Pad inserts ids afterwards.",
        "design_ref": "DESIGN.md §5, §6 C07",
        "note": "Trusted: Lean kernel + 3 standard axioms; the literal-scan model of the special-token regexes and all other regexes are "
                "tied by correspondence only.",
        "technique": "Lean 4 proof over executable model + differential correspondence with the Rust implementation",
    },
    "C09": {
        "text": "Machine-checked Lean theorems: for each encoder, encoding a list of parts = in-order concatenation of per-part results "
                "that depend on the part's text alone; the pipeline is the composition parts -> encoder -> post-processing. Tied to the "
                "code by differential runs incl. the property's own reference composition through the public API.",
        "design_ref": "DESIGN.md §6 C09",
        "note": "Trusted: Lean kernel + 3 standard axioms; harness generators; oracle tables for external calls.",
        "technique": "Lean 4 proof over executable model + differential correspondence with the Rust implementation",
    },
    "C11": {
        "text": "PARTIAL. Machine-checked Lean theorems for the built-in steps on every valid UTF-8 text (Strip, Extend incl. the unsafe "
                "byte splice, Collapse, literal Replace, Prepend/Append, NMT with regenerated tables, conditionals, order, early return, "
                "UTF-8 validity). Unicode normal forms, case folding and regex Replace are external libraries: tied by oracle tables, not proved.",
        "design_ref": "DESIGN.md §6 C11",
        "note": "Partial: equality of NFC/NFD/NFKC/NFKD and case folding with 'the standard ones' is outside the model (Unicode data is not "
                "available to Lean offline); their calls are recorded and replayed, so order/conditions/validity are still covered.",
        "technique": "Lean 4 proof over executable model + differential correspondence with the Rust implementation",
    },
    "C12": {
        "text": "Machine-checked Lean theorems: load_roundtrip, load_total, load_layout, prefix_eq_keys_partial, prefix_sound, "
                "transform_eq_occurrence, normalize_eq_spec (the property itself: leftmost-longest replacement, everything else unchanged), "
                "normalize_untouched, normalize_key_then_rest; the pre-repair algorithm is refuted in Lean (old_drops_following_characters). "
                "Model tied to src/charsmap.rs by differential runs on generated tries and the shipped XLNet map.",
        "design_ref": "DESIGN.md §6 C12, §7 F4/F14/F16",
        "note": "Trusted: Lean kernel + {propext, Classical.choice, Quot.sound}; grapheme boundaries are an oracle; equalities with the "
                "specification assume LeavesInRange (decidable) and NUL-free text.",
        "technique": "Lean 4 proof over executable model + differential correspondence with the Rust implementation",
    },
    "C13": {
        "text": "Machine-checked Lean theorems (all sequences, all parameters, no bound) that Strip/Collapse/Pad/Truncate have exactly their "
                "documented effect and never panic, over a model tied to src/config/processing.rs by differential runs on exhaustive small "
                "and random large cases; byte clean-up steps are tied by correspondence and proved on the character level.",
        "design_ref": "DESIGN.md §6 C13",
        "note": "Trusted: Lean kernel + {propext, Classical.choice, Quot.sound}; harness generators; bstr lossy decoding is modelled and "
                "tied by correspondence; regex Replace is an oracle.",
        "technique": "Lean 4 proof over executable model + differential correspondence with the Rust implementation",
    },
}
