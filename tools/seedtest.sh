#!/bin/bash
# Usage: tools/seedtest.sh <seed-dir-with-OUT> <check-id>...   — confirms a seeded change in its scratch worktree and runs checks against it in /repo.
# 1. in the worktree: demo fails with the change, passes without; the 34 stable tests pass with the change
# 2. applies OUT/patch.diff to /repo, runs ./check <id> quick for each id, reverts /repo
W=$1; shift
export CARGO_NET_OFFLINE=true CARGO_TARGET_DIR=$W/target
cd $W || exit 2
echo "== confirm in worktree $W"
cp OUT/seed_demo.rs tests/seed_demo.rs 2>/dev/null
git checkout -- src; git apply OUT/patch.diff || { echo "patch does not apply in worktree"; exit 3; }
cargo test --offline --test seed_demo > OUT/confirm_with.log 2>&1; echo "demo with change: rc=$? ($(grep -E '^test result' OUT/confirm_with.log | tail -1))"
git diff -- src > /tmp/seed_patch_$$.diff; git checkout -- src
cargo test --offline --test seed_demo > OUT/confirm_without.log 2>&1; echo "demo without change: rc=$? ($(grep -E '^test result' OUT/confirm_without.log | tail -1))"
git apply /tmp/seed_patch_$$.diff; rm -f /tmp/seed_patch_$$.diff
cargo test --offline --lib > OUT/confirm_suite.log 2>&1; echo "unit tests with change: $(grep -E '^test result' OUT/confirm_suite.log | tail -1)"
cargo test --offline --test test_convert_tiktoken >> OUT/confirm_suite.log 2>&1; echo "tiktoken tests with change: $(grep -E '^test result' OUT/confirm_suite.log | tail -1)"
cargo build --offline --features verif-hooks,split > /dev/null 2>&1; echo "builds with hooks: rc=$?"
echo "== run checks against /repo with the change"
unset CARGO_TARGET_DIR   # the checks must build into /verif/build/cargo, not into the scratch worktree
cd /verif
git -C /repo apply $W/OUT/patch.diff || { echo "patch does not apply to /repo"; exit 3; }
for id in "$@"; do ./check $id quick 2>&1 | tail -3; done
git -C /repo checkout -- .
git -C /repo status --short | head -3
# the runs above rewrote evidence/<id>.json from a tree with the seeded change: the committed evidence comes from the
# unchanged tree only
git -C /verif checkout -- evidence
