#!/bin/sh
# Builds the framework from files on disk only (offline): translator output, Lean library + driver, Rust harness.
set -e
cd "$(dirname "$0")/.."
mkdir -p build evidence
python3 tools/extract.py
(cd lean && lake build Kitoken kdriver Kitoken.All)
(cd harness && CARGO_NET_OFFLINE=true cargo build --offline)
echo "setup: ok"
