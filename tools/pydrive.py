#!/usr/bin/python3
"""Drives the Python binding (C20): pydrive.py <dir with kitoken.abi3.so> <requests.jsonl> <answers.jsonl>

One request per line: {"ctor": ..., "path": ..., "ops": [...]}; one answer line per request:
{"load": "OK" | "ERR <message>" | "PANIC ...", "ops": [answer, ...]}. Answers use the harness's spelling
(`OK 1,2,3`, `OK <hex>`, `ERR <library message>`), so that they can be compared with the core library's
answers for the same inputs character by character. A Rust panic arrives as pyo3's PanicException, which
derives from BaseException: it is reported as PANIC, never as an ordinary error."""
import json, os, sys

sys.path.insert(0, sys.argv[1])
import kitoken  # noqa: E402


def fnv(data):
    h = 0xcbf29ce484222325
    for b in data:
        h ^= b
        h = (h * 0x100000001b3) & 0xFFFFFFFFFFFFFFFF
    return "%016x" % h


def ids(v):
    return "-" if not v else ",".join(str(x) for x in v)


def hx(b):
    return "-" if not b else bytes(b).hex()


def unhex(s):
    return b"" if s == "-" else bytes.fromhex(s)


def guard(f):
    try:
        return f()
    except ValueError as e:
        return "ERR " + str(e)
    except (TypeError, OverflowError, UnicodeError) as e:
        return "EXC " + type(e).__name__
    except BaseException as e:  # pyo3_runtime.PanicException
        return "PANIC " + type(e).__name__


def construct(req):
    ctor, path = req["ctor"], req["path"]
    data = None
    if not ctor.endswith("_file") and ctor != "from_file":
        data = open(path, "rb").read()
    if ctor == "bytes":
        return kitoken.Kitoken(data)
    if ctor == "from_file":
        return kitoken.Kitoken.from_file(path)
    f = getattr(kitoken.Kitoken, ctor)
    return f(path) if ctor.endswith("_file") else f(data)


def kw(flag, name):
    return {} if flag is None else {name: flag}


def run_op(tok, op, workdir):
    k = op["op"]
    if k == "encode":
        text = unhex(op["text"]).decode("utf-8")
        if op.get("positional") and op["flag"] is not None:
            return "OK " + ids(tok.encode(text, op["flag"]))
        return "OK " + ids(tok.encode(text, **kw(op["flag"], "encode_specials")))
    if k == "encode_all":
        texts = [unhex(t).decode("utf-8") for t in op["texts"]]
        return "OK " + ";".join(ids(r) for r in tok.encode_all(texts, **kw(op["flag"], "encode_specials")))
    if k == "decode":
        r = tok.decode(op["ids"], **kw(op["flag"], "decode_specials"))
        if not isinstance(r, bytes):
            return "EXC decode did not return bytes"
        return "OK " + hx(r)
    if k == "decode_all":
        return "OK " + ";".join(hx(r) for r in tok.decode_all(op["ids"], **kw(op["flag"], "decode_specials")))
    if k == "to_bytes":
        return "OK " + fnv(tok.to_bytes())
    if k == "bytes_roundtrip":
        b = tok.to_bytes()
        again = kitoken.Kitoken(b)
        return "OK " + fnv(again.to_bytes())
    if k == "file_roundtrip":
        p = os.path.join(workdir, "py_roundtrip_%d.kit" % os.getpid())
        tok.to_file(p)
        again = kitoken.Kitoken.from_file(p)
        os.remove(p)
        return "OK " + fnv(again.to_bytes())
    if k == "bad_input":
        # inputs only Python can produce: they must raise an ordinary exception, not crash
        which = op["which"]
        try:
            if which == "surrogate":
                tok.encode("a\ud800b")
            elif which == "id_too_large":
                tok.decode([1 << 32])
            elif which == "negative_id":
                tok.decode([-1])
            elif which == "not_a_string":
                tok.encode(b"bytes")
            elif which == "not_a_list":
                tok.decode(7)
            elif which == "nested_wrong":
                tok.decode_all([1, 2])
            elif which == "none_text":
                tok.encode(None)
        except Exception as e:
            return "OK raised"
        return "NOEXC " + which
    return "EXC unknown op"


def main():
    workdir = os.path.dirname(os.path.abspath(sys.argv[3]))
    with open(sys.argv[2]) as fin, open(sys.argv[3], "w") as fout:
        for line in fin:
            req = json.loads(line)
            ans = {"load": "OK", "ops": []}
            tok = None
            r = guard(lambda: construct(req))
            if isinstance(r, str):
                ans["load"] = r
            else:
                tok = r
            if tok is not None:
                for op in req["ops"]:
                    ans["ops"].append(guard(lambda: run_op(tok, op, workdir)))
            fout.write(json.dumps(ans) + "\n")
            fout.flush()


if __name__ == "__main__":
    main()
