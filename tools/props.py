"""Per-property metadata used by tools/check.py (levels, notes, non-triviality rules)."""

CORE_TB = [
    "Lean 4.33 kernel; axioms allowed: propext, Classical.choice, Quot.sound (checked by #print axioms on every property theorem)",
    "tools/extract.py (translator: constants/tables regenerated from /repo's source on every run)",
    "harness/ (Rust correspondence harness, generators) and the compiled Lean driver (used for correspondence and SPEC verdicts only, not for theorems)",
]

PROPS = {
    "C10": {
        "level": "proof",
        "rule": "SPLIT ops through Configuration::split: exhaustively all strings up to length 5 (quick; 7 in thorough over 4 letters) over "
                "an alphabet mixing 1-, 2-, 3- and 4-byte characters {a, space, é, ▁, 😀} x 6 behaviours x 4 character, 8 string (incl. "
                "empty and overlapping) and 5 regex patterns (incl. empty-match-capable and look-ahead); randomly: longer texts, the regexes "
                "used by the converters, chains of up to 3 splits, Unicode-script splitting over scalar classes. Judged by the recursive "
                "range specifications plus order, tiling and character alignment. Non-trivial: the text is non-empty.",
        "trusted_base": CORE_TB + ["modelled, not verified: memchr/memmem (leftmost non-overlapping search, modelled and tied by correspondence), "
                                   "fancy-regex find_iter and unicode-script lookup (oracle tables recorded through verif-hooks; every recorded "
                                   "regex result is re-checked against the MatchesSane assumption by the Ordered/aligned verdict)"],
        "assumptions": ["MatchesSane: regex matches are ordered, non-overlapping, in bounds (hypothesis of split_ordered/chain_refines)"],
        "explanation": "Lean theorems for every match list and text length: each behaviour equals its gaps/matches description, Isolate/Merge/"
                       "MergeLeft/MergeRight tile the text, Remove/Match are ordered, every output boundary is a match boundary or an end of "
                       "the text, literal matches form a chain and are character-aligned in valid UTF-8, character = string pattern, a chain "
                       "of splits refines the previous stage. Tied to src/config/split.rs and Configuration::split by differential runs.",
    },
    "C01": {
        "level": "proof",
        "rule": "RT ops (encode then decode with the same flag, both through the public API) on 120 (quick) / 1500 (thorough) generated "
                "byte-complete definitions (byte-level BPE with all 256 bytes; character-mode BPE and Unigram with byte fallback and all 256 "
                "byte tokens; identity normalization or the two whitespace-marker shapes; tiling splits; specials of all kinds) and the 15 "
                "byte-complete shipped models (Tiktoken x3, GPT-2, GPT-NeoX, MPT, ModernBERT, Llama 2 x3 sources, Mistral x4, Nerdstash) x "
                "texts with every scalar class, combining marks, NUL, ZWJ sequences, runs >192, special-token strings (marker-normalizing "
                "tokenizers: texts without U+2581; special recognition on only for identity-normalizing tokenizers). Verdict: decoded bytes = "
                "clean-up of the concatenated first-pass parts, and = the text itself when normalization is the identity.",
        "trusted_base": CORE_TB + ["modelled, not verified: fancy-regex, unicode-normalization (NFC for NeoX/MPT/ModernBERT: the statement is "
                                   "modulo NFC), oracle tables", "hashbrown maps as finite maps"],
        "assumptions": ["ByteCompleteBpe: every byte is a token, merge ranks exist only for vocabulary entries, the decoder map inverts the "
                        "encoder map, no suffix/prefix (true of the generated definitions by construction; for shipped models tied by the RT verdict)",
                        "the end-to-end statement for character mode / Unigram-with-byte-fallback is covered by the C02/C06/C08 theorems and "
                        "the RT verdict, not by a single Lean statement"],
        "explanation": "Lean theorems: spm_marker_inverse and hf_marker_inverse (clean-up inverts the marker normalization on every text without "
                       "the marker), no_fallback_reachable, bpe_roundtrip_parts (byte-level BPE: decode(encode(parts)) = the parts' texts for "
                       "every vocabulary, fallback list and part list), second_pass_preserves_text (tiling splits lose nothing). Tied by RT runs.",
    },
    "C02": {
        "level": "proof",
        "rule": "ENC2 ops through Kitoken::encode in both modes: 120 (quick) / 1500 (thorough) generated definitions of all four kinds with "
                "normalization, split, specials (all kinds, extracted or not, look-alikes), suffix/prefix, processing x 40/150 texts "
                "interleaving special strings, multi-byte text, >192-unit runs; the 23 loadable shipped models x 60/1500 texts (recorded "
                "corpora lines, generated text, single scalar values). Verdict: the ids, mapped back to bytes (suffix kept, continuation "
                "prefix dropped), spell the concatenation of the encoder's parts exactly whenever no unknown id occurs. Non-trivial: "
                "at least one token returned.",
        "trusted_base": CORE_TB + ["modelled, not verified: fancy-regex (find_iter / replace_all), unicode-normalization, std case mapping, unicode-script, "
                                   "bstr grapheme segmentation — oracle tables recorded through verif-hooks on every call; a model request "
                                   "missing from the table (MISS) is a correspondence failure", "hashbrown maps as finite maps"],
        "assumptions": ["the left inverse of the vocabulary map exists (ids are injective: checked by the constructor)"],
        "explanation": "Lean theorems: per-segment accounting for BPE (bpe_accounting, bpe_segments_cover, bpe_spelling), Unigram "
                       "(unigram_accounting: the rendered walk covers the piece; unigram_spelling) and WordPiece (wordpiece_spelling), for "
                       "every vocabulary, piece, fallback list and buffer state; the pipeline parts are the cut-wise specification (C07). "
                       "Tied to the code by differential runs of the whole pipeline.",
    },
    "C06": {
        "level": "proof",
        "rule": "BPE/UNI/WP ops on generated vocabularies with holes: all three kinds x every fallback list over {Bytes, Unknown, Skip} up to "
                "length 3 (incl. empty) x unknown defined or not x suffix on/off x all 256 bytes present or not x pieces hitting holes at "
                "start/middle/end, short and 150..600 units (150 definitions x 50 pieces quick, 1500 x 120 thorough) plus the F5/F7 corpus "
                "witnesses. Judged by the fallback specification (Spec.bpePieceSpec / wordSpec / uniCheck). Non-trivial: token or error.",
        "trusted_base": CORE_TB + ["hashbrown maps as finite maps"],
        "assumptions": ["ranks fit u32; vocabulary ids differ from u32::MAX; interpretation of 'first applicable entry' = head of the list (DESIGN.md §5)"],
        "explanation": "Lean theorems: leaf_cases / hole_cases (what each head does), bpe_follows_chain and bpe_heap_follows_chain (emission "
                       "loop incl. byte-level recursion on the shared buffer = Spec.bpeSegments), unigram_follows_chain (rendered walk), "
                       "wordpiece_follows_chain, and no panic for any fallback list for the three encoders. Tied by differential runs.",
    },
    "C07": {
        "level": "proof",
        "rule": "ENC7 ops through Kitoken::encode in both modes on generated definitions mixing control/priority/unknown specials, extracted "
                "and non-extracted, look-alike strings ('<s', '<s>>', '<S>', '< s>', '▁<s>'), with normalizations that alter text, and the "
                "23 shipped models (up to 771 specials) with texts interleaving their special strings. Verdict: no control id with "
                "encoding off; the recognized specials appear as exactly their ids in order. Non-trivial: token or error returned.",
        "trusted_base": CORE_TB + ["modelled, not verified: fancy-regex (find_iter / replace_all), unicode-normalization, std case mapping, unicode-script, "
                                   "bstr grapheme segmentation — oracle tables recorded through verif-hooks on every call; a model request "
                                   "missing from the table (MISS) is a correspondence failure", "hashbrown maps as finite maps"] + ["the special-token regexes (alternations of escaped literals) are modelled as a leftmost-first literal "
                                   "scan (Pipeline.scanLiterals); agreement with fancy-regex is part of the correspondence"],
        "assumptions": ["special texts are non-empty and valid UTF-8 (SpecialsWF) for the equalities with the cut-wise specification; "
                        "the no-control theorems need no hypothesis",
                        "control ids disjoint from vocabulary ids and the unknown id for the output-level reading (true of all shipped models; "
                        "the verdict ignores ids that are also vocabulary ids)"],
        "explanation": "Lean theorems: scan_chain, scan_leftmost_first, scan_complete, scan_aligned; stageA_eq_spec and stageB_eq_spec (both "
                       "passes equal the cut-wise specification: each side of a special is handled by itself); stageA/parts_no_control_when_off; "
                       "stageA_special_atomic; second_pass_mode_independent; process_ids_provenance (only Pad inserts ids). Tied by differential runs.",
    },
    "C09": {
        "level": "proof",
        "rule": "ENC9 ops (verdict: output = post-processing of the concatenation of per-part specifications computed on fresh state) and "
                "REF9 ops (the property's reference composition through the public normalize/split functions and a tokenizer stripped of "
                "normalization/split/specials, for texts without special strings, compared with the model's whole-pipeline answer) on the "
                "generated definitions and shipped models of C02; pieces of mixed short and >192-unit lengths in one text. Non-trivial: token or error.",
        "trusted_base": CORE_TB + ["modelled, not verified: fancy-regex (find_iter / replace_all), unicode-normalization, std case mapping, unicode-script, "
                                   "bstr grapheme segmentation — oracle tables recorded through verif-hooks on every call; a model request "
                                   "missing from the table (MISS) is a correspondence failure", "hashbrown maps as finite maps"],
        "assumptions": ["parts are valid UTF-8 (they are Rust strs): hypothesis hv of bpe_parts_independent, needed only for long pieces in "
                        "character mode"],
        "explanation": "Lean theorems: for each encoder the encoding of a list of parts equals the in-order concatenation of per-part "
                       "results computed from the part's text alone (scratch buffers, un-cleared character-mode buffer, fallback recursion, "
                       "result reversal all proved irrelevant); seqRes_append; special_part_alone; pipeline_eq_composition. Purity across "
                       "calls: Lean functions are pure and the source has no interior mutability besides the NMT regex cell (C19). Tied by differential runs.",
    },
    "C11": {
        "level": "proof",
        "rule": "NORM ops through Configuration::normalize: exhaustively all strings up to length 4 (quick) / 6 (thorough) over {a, space, é, ▁} "
                "x Strip/Extend (counts 0,1,2,u32::MAX; pad on/off)/Collapse/Replace (character, string incl. empty and overlapping); NMT over all "
                "listed code points and neighbours (thorough: every scalar value), case folding and the four Unicode forms over sampled scalars "
                "(oracle-backed), sequences of up to 6 steps incl. regex Replace with capture groups and nested conditionals at segment starts "
                "0/non-0 and open/closed ends. Verdict: character-level specification for single built-in steps, valid UTF-8 always.",
        "trusted_base": CORE_TB + ["modelled, not verified: fancy-regex (find_iter / replace_all), unicode-normalization, std case mapping, unicode-script, "
                                   "bstr grapheme segmentation — oracle tables recorded through verif-hooks on every call; a model request "
                                   "missing from the table (MISS) is a correspondence failure", "hashbrown maps as finite maps"],
        "assumptions": ["PARTIAL: Unicode normal forms, case mapping and regex Replace are external libraries (oracles): for them only order, "
                        "conditions and UTF-8 validity are covered; equality with 'the standard ones' is not proved here"],
        "explanation": "Lean theorems over all texts: strip_chars/strip_spec, extend_chars/extend_bytes_valid (the unsafe splice equals the "
                       "UTF-8 encoding of the character-level result), collapse_* (no adjacent copies, others untouched, idempotent), "
                       "replace_literal_chars, nmt_chars with tables regenerated from the source and nmt_sets_disjoint, conditional_iff, "
                       "steps_in_order, empty_text_untouched, builtin_steps_valid. Tied by differential runs.",
    },
    "C12": {
        "level": "proof",
        "rule": "CMAP_LOAD ops: generated blobs (0..6 units, truncated, inconsistent size fields, minimal sizes 0/1/3/4 bytes) and the "
                "blobs of generated tries; NORMS ops (normalization of a slot whose configuration is the map alone): 200 (quick) / 5000 "
                "(thorough) generated double-array tries over a pool of keys incl. multi-character and combining sequences, each key "
                "alone, followed by a combining mark and inside a ZWJ sequence, random texts; the shipped XLNet map (both sources) over "
                "20k scalar values in four contexts plus U+2FA00..U+2FA2F (quick) / every Unicode scalar value (thorough). Judged by the "
                "leftmost-longest specification (Spec.normalizeSpec) and the blob layout. Non-trivial: non-empty input.",
        "trusted_base": CORE_TB + ["modelled, not verified: bstr grapheme segmentation (boundaries recorded through verif-hooks), bstr lossy "
                                   "decoding of replacement strings (modelled)"],
        "assumptions": ["LeavesInRange for the equalities with the specification (decidable; true of builder-written maps); totality, "
                        "prefix_sound and normalize_untouched hold for every map", "NUL-free text for normalize_eq_spec (the search stops at NUL)"],
        "explanation": "Lean theorems: blob round trip incl. the last unit, loader totality and layout, common-prefix search = exact-match keys, "
                       "transform = longest key occurrence, normalize = leftmost-longest specification for every text and grapheme "
                       "segmentation, characters the map does not mention are unchanged, a key followed by other characters keeps them. "
                       "Three genuine defects were found here and repaired (F4, F14, F16). Tied to src/charsmap.rs by differential runs.",
    },
    "C13": {
        "level": "proof",
        "rule": "exhaustive token sequences up to length 5 (quick) / 7 (thorough) over 3 ids x all Strip/Pad/Truncate "
                "parameters 0..4 (0..8) and u32::MAX x both directions, plus random long sequences and multi-step lists; "
                "byte steps: all parameter combinations over short strings on multi-byte alphabets plus random bytes incl. "
                "invalid UTF-8. A case is non-trivial when the implementation's output differs from its input; distinct = distinct request lines.",
        "trusted_base": CORE_TB + ["modelled, not verified: bstr lossy UTF-8 decoding (modelled in Lean, tied by correspondence), "
                                   "fancy-regex replace_all for Decoding::Replace with a regex pattern (oracle)"],
        "assumptions": ["u32 parameters widen to usize without overflow (64-bit target)",
                        "Pad with a stride/length that would allocate gigabytes is resource exhaustion, outside the property"],
        "explanation": "Lean theorems state the documented effect and totality of every token step for all sequences and parameters; "
                       "the model is tied to src/config/processing.rs and src/config/decoding.rs by running both on the same generated cases.",
    },
    "C03": {
        "level": "proof",
        "rule": "BPE ops (one piece on a tokenizer without normalization/split/specials): exhaustively every ordered choice of up to 2 "
                "(quick) / 3 (thorough) merges over {a,b,c} in byte and character mode x all strings of length 1..5 / 1..7, each (quick: "
                "lengths >= 4) also behind 193 inert units to force the heap strategy; randomly: multi-byte alphabets, up to 30 merges, "
                "random rank order and ids, byte/char mode, with/without end-of-word suffix, pieces of 1..24 and 150..600 units; shipped "
                "cl100k, gpt2, llama2, clip on corpus words. Judged by the naive canonical-merge specification (Spec.bpePieceSpec). "
                "Non-trivial: at least one token or an error returned; distinct = distinct request lines.",
        "trusted_base": CORE_TB + ["modelled, not verified: orx-priority-queue d-ary heap as 'minimum by (rank,start) among live nodes in text "
                                   "order' (prior/after links abstracted to list adjacency; link corruption would show as a correspondence "
                                   "failure, not as a proof failure), hashbrown maps as finite maps"],
        "assumptions": ["merge ranks are u32 values (TokenRank = u32): hypothesis hr of the *_partial theorems; the unrestricted statements are "
                        "false of the Nat-ranked model only for ranks above u32::MAX and are kept with their counterexample",
                        "ENCODE_LINEAR_LIMIT and the strategy comparison are regenerated from the source on every run"],
        "explanation": "Lean theorems: the cached-rank linear loop on a shared scratch buffer and the heap loop both equal the naive "
                       "lowest-rank-first leftmost merge for every vocabulary, piece and unit list (bytes or characters, suffix on the last "
                       "unit), hence strategy independence at every length; the shortcut fires for vocabulary entries; the canonical merge is "
                       "a fixpoint that preserves the text. Tied to src/encoder/bytepair.rs by differential runs.",
    },
    "C04": {
        "level": "proof",
        "rule": "UNI ops (one piece on a tokenizer without normalization/split/specials): exhaustive pieces up to length 5 (quick) / 8 "
                "(thorough) over {a,b} and up to 5/6 over {a,é,語} x generated scored vocabularies (many exact ties, multi-byte characters, "
                "holes), 60 / 600 vocabularies that are not built from their single characters (entries spanning positions where no entry "
                "ends) x all pieces up to length 5..7, random pieces of 1..24 and 150..600 characters, shipped xlnet (both sources) and nai-t5 on corpus words with real "
                "scores. Judged by an independent dynamic program over all segmentations (Spec.uniCheck: optimal cost when segmentable; "
                "token/hole walk otherwise). Non-trivial: at least one token or an error returned.",
        "trusted_base": CORE_TB + ["IEEE-754: f64 subtraction is monotone and <= is a total preorder without NaN (LawfulCost laws are proved "
                                   "for Int and assumed for Float, which is used only in the driver, never in a theorem)",
                                   "modelled, not verified: hashbrown maps as finite maps"],
        "assumptions": ["vocabulary ids differ from u32::MAX; entries are at most max_token_bytes long (constructor facts, hypotheses hid/hmax)",
                        "the code as repaired (F13, commit 8176aef) compares (broken, score) lexicographically: modelled as the cost type Tainted S"],
        "explanation": "Lean theorems for every cost type satisfying the laws: the Viterbi table, back-walk and reversal yield a walk whose "
                       "tokens match the text and whose holes are exactly units at whose end no entry ends (unigram_walk, no cost "
                       "hypotheses), and a minimal-cost segmentation whenever one exists, with no bound on costs and scores of either sign "
                       "(viterbi_optimal, for the repaired comparison; viterbi_optimal_partial and sentinel_counterexample document the "
                       "pre-repair code: optimal only inside BoundedCost). "
                       "Tied to src/encoder/unigram.rs by differential runs.",
    },
    "C05": {
        "level": "proof",
        "rule": "WP ops (one word on a tokenizer without normalization/split/specials): exhaustive words up to length 5 (quick) / 8 "
                "(thorough) over {a,b} and up to 5/6 over {a,é,語} x generated vocabularies (prefixes ##, @@, é, ▁; entries equal to the "
                "prefix; max_word_chars 0..6), random words incl. >150 characters and characters missing from the vocabulary x all "
                "fallback lists up to length 3 x unknown defined or not; shipped bert_base_cased and gte on corpus words. "
                "Non-trivial: the implementation returned at least one token or an error; distinct = distinct request lines.",
        "trusted_base": CORE_TB + ["modelled, not verified: bstr char_indices (lossy decoder modelled in Kitoken.Model.Utf8, proved to invert "
                                   "core Lean's UTF-8 encoder), hashbrown maps as finite maps"],
        "assumptions": ["WordPiece::new splits the vocabulary by prefix as modelled in Kitoken.Model.Init.mkEncoder (tied by correspondence)"],
        "explanation": "Lean theorems: the encoder loop equals the recursive greedy longest-match-first specification for every vocabulary, "
                       "word and limit; failures are atomic; the guards fail the whole word; successful encodings spell the word. "
                       "Tied to src/encoder/wordpiece.rs by differential runs judged by the greedy specification.",
    },
    "C08": {
        "level": "proof",
        "rule": "id sequences over the full u32 space (valid vocabulary ids, special ids, u32::MAX, ids just past the vocabulary, "
                "random u32, empty and 10^5-long sequences in thorough) x both modes x generated definitions (with / without "
                "continuation prefix, control / priority / unknown specials, vocabulary ids shadowing special ids, with / without "
                "clean-up steps) and the 24 shipped models. Non-trivial: the sequence is non-empty; distinct = distinct request lines.",
        "trusted_base": CORE_TB + ["modelled, not verified: hashbrown maps as finite maps (last insertion wins); "
                                   "fancy-regex replace_all for a regex Decoding::Replace (oracle table)"],
        "assumptions": ["Decoder::new builds its maps by plain insertion (modelled in Kitoken.Model.Init.mkDecoder, tied by correspondence)"],
        "explanation": "Lean theorems: decoding equals in-order concatenation (flatMap) of the ids' byte strings, is a homomorphism without "
                       "prefix, reports the first invalid id, never panics, filters control tokens iff special decoding is off, vocabulary "
                       "shadows specials, and prefix-mode spacing is characterized exactly; the model is tied to src/decoder.rs and "
                       "Kitoken::decode by differential runs.",
    },
    "C14": {
        "level": "proof",
        "rule": "DESER ops (to_vec(from_slice(bytes)) on the real code vs the model codec, byte for byte) and TODEF ops (from_slice -> Kitoken -> "
                "to_definition -> to_vec vs the export model) on the serialized forms of the 24 shipped models (converted if foreign; TODEF only "
                "for vocabularies up to 3000 entries because the list-based export model is quadratic) and 300 (quick) / 5000 (thorough) generated "
                "definitions covering every model kind and every configuration enum variant (all normalization / split / processing / decoding / "
                "template variants, regex and character patterns, nested conditionals, character maps), extreme ids and scores (0, u32::MAX-1, "
                "subnormal, negative zero, infinities), non-ASCII metadata; IMPLEQ ops: field-by-field identity incl. the three fields that == "
                "ignores, export of a canonical definition returns it, and behaviour equality (encode/decode on generated texts) of tokenizers "
                "rebuilt from the serialized form and from their own export. Non-trivial: all.",
        "trusted_base": CORE_TB + ["modelled, not verified: postcard 1.1.3 + serde derive as the generated/hand-written codec (layout regenerated "
                                   "from the serde derives by the translator and proved equal to the model's layout; wire details tied by DESER "
                                   "correspondence), hashbrown iteration order as an arbitrary permutation, stable sort as List.mergeSort",
                                   "regex compilation on deserialization is external: its outcome is an oracle recorded through verif-hooks"],
        "assumptions": ["Representable: u32 fields fit, strings are valid UTF-8, regex patterns compile, the serialization is shorter than 2^64 bytes",
                        "Canonical (for export_canonical): distinct BPE byte strings; Unigram strictly sorted by (score,id) without NaN; WordPiece "
                        "strictly sorted by (id,bytes); specials strictly sorted"],
        "explanation": "Lean theorems: layout_matches_source (the model's wire layout is literally the layout extracted from the current Rust "
                       "source), definition_roundtrip (every field, scores bit for bit), fromSlice_toVec, reserialize_same_bytes, "
                       "fromSlice_checks (size/magic/version), export_canonical and export_order_independent (for every hash iteration order). "
                       "Tied to src/serialization.rs / definition.rs / Encoder::model by differential runs.",
    },
    "C18": {
        "level": "proof",
        "rule": "ENC18 ops (whole pipeline, both modes, overflow checks and debug assertions on, catch_unwind per case) on 120 (quick) / 1500 "
                "(thorough) generated well-formed definitions (every split behaviour with multi-byte patterns, normalization/processing/decoding "
                "steps with boundary parameters, end-of-word suffix x byte fallback, truncation with strides) and the 23 shipped models x texts "
                "(corpora lines, special look-alikes, single scalar values, >192-unit runs); IMPLONLY ops: adversarial texts of 4 KiB and 32 KiB "
                "(thorough: up to 256 KiB: long unbroken runs, whitespace runs, combining-mark runs, special look-alikes, random scalars) on "
                "the implementation only; every 12th generated definition gets a special token with an empty text (accepted by the "
                "constructor, outside LoadableWF and outside the model) and is run on the implementation only. Decoding arbitrary ids is "
                "covered in depth by C08. Verdict: no PANIC/CRASH. Non-trivial: all.",
        "trusted_base": CORE_TB + ["modelled, not verified: external regex / Unicode libraries (oracle tables); the regex engine's backtrack limit "
                                   "(fancy-regex fails on ~1 MiB whitespace runs; the property's bound of 256 KiB is inside it) is an assumption",
                                   "process death (abort, stack overflow, OOM) is observed only as a missing answer of the generator process"],
        "assumptions": ["ExtSane: regex matches are ordered, in bounds and on character boundaries; external string results are valid UTF-8",
                        "allocation failure and real stack depth are outside the model"],
        "explanation": "Lean theorems: encode_never_panics (for every well-formed tokenizer, valid UTF-8 text and sane external libraries the whole "
                       "pipeline returns tokens or an encode error, never a panic; every str slice is on a character boundary), composed from "
                       "normalize_total, split_aligned, parts_total, encoder_never_panics, process_never_panics; decode_never_panics for any ids "
                       "on any tokenizer; loaded_tokenizer_wf / loaded_tokenizer_never_panics: a definition that the constructor accepts "
                       "(Tokenizer.new = ok) and that comes from a well-formed source (LoadableWF: no empty special or token text, no id "
                       "u32::MAX, UTF-8 configuration strings) satisfies all hypotheses of encode_never_panics. Tied to the code by "
                       "differential runs of the whole pipeline with overflow checks on.",
    },
    "C15": {
        "level": "proof",
        "rule": "Every source = the 22 convertible shipped foreign-format files plus 400 (quick) / 4000 (thorough) generated sources of the four "
                "formats (mostly valid, with boundary values; rejected ones are counted). Each is converted by its explicit converter (DEF "
                "lines) and parsed independently in the harness (base64 / serde_json::Value / prost; own GPT-2 byte table and <0xNN> parser): "
                "one SRCT line per source token (id, true bytes, unused, score bits, merge priority, special kind). KEEPS = the Lean verdict "
                "keepsCheck (every ordinary token kept under its id with its bytes unless unused or a duplicate; specials kept with id and "
                "kind or renumbered only on a collision; nothing invented; byte-pair order by merge priority; unigram scores bit-exact; the "
                "definition initializes when the source is well-formed). CONVTT / CONVTK: the Lean models of the Tiktoken and Tekken "
                "converters against the implementation's result. BYTETAB: the 256 placeholder characters observed through a ByteLevel source. "
                "BYTEPIECE: all 256 <0xNN> pieces (upper and lower case) and malformed ones through a SentencePiece source. CONVHF: the Lean "
                "model of the Tokenizers converter's vocabulary path (HFA / HFV / HFM lines carry the parsed source) against the "
                "implementation's vocabulary, scores and specials; CONVSP: the same for the SentencePiece converter (SPT / SPP lines). IMPLEQ detect: "
                "auto-detection = explicit converter, with the earlier loaders of the chain that accept the data named; detect-native: a "
                "native file of the result is read back as itself. Non-trivial: all.",
        "trusted_base": CORE_TB + ["the independent parsers in harness/src/c15.rs (they share base64, serde_json and prost with the converters, none of the converters' types or logic)",
                                   "keepsFast (hash-map evaluation of keepsCheck for 100k-entry vocabularies; cross-checked against the proved keepsCheck on every source with at most 2000 tokens)",
                                   "NOT modelled: the translation of normalizers / pre-tokenizers / decoders / post-processors by the SentencePiece and Tokenizers converters (their vocabulary paths are modelled: CONVHF / CONVSP compare model and implementation on every source with at most 3000 tokens; larger sources are judged by KEEPS only)"],
        "assumptions": ["Tekken tokens beyond default_vocab_size and SentencePiece BYTE pieces not of the exact form <0xNN> carry no claim (treated as unused)",
                        "a second SentencePiece UNKNOWN piece, or one that the trainer spec does not name, carries no claim"],
        "explanation": "Lean theorems: the byte-level placeholder table has 256 distinct entries and its inverse undoes it on every byte "
                       "string; <0xNN> parsing is exact on all 256 pieces and rejects short ones; convertTiktoken keeps every line in order "
                       "(tiktoken_keeps); convertTekken keeps every token inside the declared size under rank + specials, invents nothing, is "
                       "sorted, and its special and vocabulary ids are disjoint; the detection chain returns the native result first and the "
                       "explicit result exactly when earlier loaders reject; keepsCheck_sound (the decidable checker implies the property); from raw "
                       "bytes: base64_roundtrip and base64_decode_canonical (only canonical encodings are accepted), parseU32_digits / "
                       "parseU32_overflow_rejected, parseTiktoken_render and tiktoken_text_keeps (the text of any vocabulary converts to exactly "
                       "its entries, ids and order); for the Tokenizers converter's vocabulary path (all three model kinds, every "
                       "iteration order of its hash maps): postSteps_keeps / postSteps_no_invention / postSteps_nodup (undoing "
                       "placeholders and <0xNN>, de-duplication), repairIds_spec / repairIds_fresh / repairIds_above_specials (repair of "
                       "colliding special ids; the first statement of repairIds_fresh was false of the code: defect F24), "
                       "hf_unigram_order_independent / hf_bpe_order_independent, hf_unigram_scores_aligned (F22); for the SentencePiece "
                       "converter's vocabulary path: sp_keeps_pieces / sp_no_invention / sp_unused_dropped / sp_special_pieces / "
                       "sp_unigram_scores / sp_vocab_order_independent. "
                       "The SentencePiece and Tokenizers converters are decided per source by keepsCheck on the implementation's output.",
    },
    "C16": {
        "level": "other",
        "rule": "REC ops: each of the 22 convertible shipped reference models (6 SentencePiece, 3 Tiktoken, 13 Tokenizers; the emptied files "
                "cannot be converted) through its explicit converter x every line of the small (20) and mixed (120) corpora and the whole utf8 "
                "corpus as one text, with the flags of the upstream tests: implementation ids and decoded text, and the Lean model's, against "
                "the recorded ids and outputs (the whole finite table, every run). IMPLEQ same3: the three Llama 2 sources on 1500 (quick) / "
                "20000 (thorough) generated texts without special-token strings (corpus lines, single scalars, marker/combining strings, "
                ">192-unit runs); every 10th also through the model per source. IMPLEQ samedef: SentencePiece conversion = native file apart "
                "from metadata. Non-trivial: all.",
        "trusted_base": CORE_TB + ["the recorded files under /repo/tests/data are taken as the reference implementations' outputs",
                                   "the first half is an evaluation of a finite table by compiled code (implementation and Lean model), not a kernel-checked theorem"],
        "assumptions": ["the regex pattern \" \" of the Tokenizers normalizer denotes the literal space (oracle-recorded per call in the runs)"],
        "explanation": "Finite part: all 3102 recorded (model, input) pairs are evaluated on the implementation and on the Lean model each run; "
                       "any id or byte that differs from the record is reported with that input. For-all part: Lean theorems "
                       "same_definition_same_tokenizer / same_definition_same_encoding (metadata cannot influence a tokenizer, so the native "
                       "Llama 2 file and the SentencePiece conversion agree on every input once the check has compared their fields) and "
                       "marker_normalizations_agree (the two whitespace-marker normalizations give the same text for every input). That the "
                       "JSON-converted Llama 2 merges identically to the SentencePiece one for every text is a fact about that vocabulary; "
                       "it is explored by generation only.",
    },
    "C17": {
        "level": "proof",
        "rule": "LOADF ops (implementation only, every load in a child process so that aborts and stack overflows are observed): "
                "structure-aware generated SentencePiece protobufs, Tokenizers JSON, Tekken JSON and Tiktoken text (mostly valid, with boundary "
                "values: empty vocabulary, zero-length tokens, malformed <0xNN> pieces, NaN/inf scores, ids at u32::MAX, unsupported kinds, "
                "invalid regexes, invalid UTF-8 specials), their mutations, boundary files, and 16 (quick) / 400 (thorough) truncations, bit "
                "flips, splices and field-level mutations of each of the 24 shipped files through auto-detection and the explicit loader. "
                "INITB / DESER ops (model and implementation): native files of 200 / 3000 generated definitions, 12 / 30 mutations each and "
                "every prefix truncation of every 20th. LOADTT ops (model and implementation): the Tiktoken loader from raw bytes (line splitting, "
                "base64 with canonical padding, decimal ids, conversion) on 600 / 6000 generated texts and their mutations, boundary texts "
                "(CR/LF forms, signs, overflowing ids, bad padding, invalid UTF-8) and the three shipped files with whole-file mutations. "
                "Verdict: never PANIC / CRASH; a truncated valid native file must be rejected. "
                "Non-trivial: all.",
        "trusted_base": CORE_TB + ["modelled and proved: native format (size/magic/version, postcard body), Kitoken::new, character-map blob loader, the Tiktoken loader from raw bytes",
                                   "NOT modelled (explored on the implementation only): the protobuf and JSON parsers and the SentencePiece / Tokenizers / Tekken "
                                   "loaders from raw bytes; allocation failure; resource exhaustion through declared sizes is excluded by the property"],
        "assumptions": ["external parsers (prost, serde_json, base64, postcard) terminate", "a child process that dies is reported as CRASH"],
        "explanation": "Lean theorems: the character-map loader is total and checks its size field; decoding a native body only takes bytes off "
                       "the front (native_dec_within_input), decoded element counts are bounded by the input length (native_sizes_bounded), "
                       "every proper prefix of a valid native file is rejected (native_truncation_rejected), header checks, invalid regexes "
                       "rejected. The foreign formats are decided by mutation runs on the real loaders in child processes (found and repaired "
                       "F8-F10, F17, F19, F20).",
    },
    "C19": {
        "level": "proof",
        "rule": "ENC / DEC ops whose implementation answers were obtained inside concurrent runs (2, 3, 4, 8, 16 threads released together by a "
                "barrier on one shared tokenizer, each thread its own shuffled order) on 40 (quick) / 400 (thorough) generated definitions and "
                "the 24 shipped models, compared with the model (a function of tokenizer and input). IMPLEQ ops (implementation only): call "
                "histories (every text twice, shuffled, interleaved with decodes and unrelated inputs) and thread runs against isolated calls "
                "on fresh tokenizers; 3 / 8 fresh processes per shipped file comparing conversion, serialization and hash-map export byte for "
                "byte (per-process hash seeds); first use of lazily initialised statics raced by k threads in a fresh process; the harness "
                "built without kitoken's multiversion feature compared on the same inputs. Non-trivial: all.",
        "trusted_base": CORE_TB + ["translator: STATE_SITES (every interior-mutability / lazy-static / thread-local site in src/, regenerated)",
                                   "NOT modelled: data races, memory ordering, the regex engine's internal caches and pools, allocator behaviour; "
                                   "the OS scheduler chooses the interleavings actually run"],
        "assumptions": ["the external libraries are thread-safe functions of their inputs (their recorded results are compared per call)"],
        "explanation": "Lean theorems over the session model (everything a call can leave behind): history_independent, prefix_irrelevant, "
                       "order_irrelevant, interleaving_invariant (each thread's answers in any merged history are those of its own calls "
                       "alone), state_sites_match (the source has exactly the one lazily initialised static the model lists), "
                       "export_deterministic (hash iteration order cannot show in an exported definition). The model is stateless by "
                       "construction, so these are statements about the specification; the correspondence under real threads, processes and "
                       "both builds is what relates them to the code.",
    },
    "C20": {
        "level": "proof",
        "rule": "The extension module is built from /repo's working tree and imported by CPython 3.11 (tools/pydrive.py). Every loadable "
                "shipped model x every binding constructor that applies (Kitoken(bytes), from_file, from_<format>(bytes), from_<format>_file) "
                "x 10 (quick; 3 on the third and fourth constructor) / 60 (thorough) texts: encode with default / explicit False / explicit "
                "True flag, positional and keyword; decode of the result with the three flag forms; encode_all / decode_all with default and "
                "explicit flags; a sequence with ids outside the vocabulary alone and in the middle of a batch (library error -> ValueError "
                "with the library's message, first error in order); to_bytes, Kitoken(to_bytes()) and to_file / from_file round trips "
                "compared by digest with the core serialization; inputs only Python can produce (lone surrogate, id >= 2^32, negative id, "
                "bytes for str, non-list, None); malformed and empty files through every constructor. IMPLEQ lines compare the binding with "
                "the core library called in-process on the same input; ENC / DEC lines carry the binding's answer to the Lean model. "
                "Non-trivial: all.",
        "trusted_base": CORE_TB + ["CPython 3.11 and tools/pydrive.py (the script that calls the binding)",
                                   "NOT modelled: pyo3 argument extraction, GIL release, serde_pyobject (definition / config accessors), "
                                   "mimalloc as global allocator, the release profile's abort-on-panic"],
        "assumptions": ["the development profile used for the extension module behaves like the released one apart from panics unwinding"],
        "explanation": "Lean theorems over the wrapper model (Model/Binding.lean): the flag defaults to off, a single call is the core call "
                       "(value for value, exception for library error), a batch call is the list of single calls or the first error in "
                       "order (collect_values, collect_first_error), and the binding cannot crash unless the core panics, which C18 excludes. "
                       "Tied to packages/python/src/lib.rs by running the built module and comparing every answer.",
    },
}


def nontrivial(prop, request, impl):
    parts = request.split(" ")
    op = parts[0]
    if op == "PROC":
        return impl != "OK " + parts[2]
    if op in ("WP", "BPE", "UNI", "ENC", "ENC2", "ENC7", "ENC9", "ENC18", "REF9", "RT"):
        return impl not in ("OK -",)
    if op in ("IMPLEQ", "DESER", "TODEF"):
        return True
    if op == "IMPLONLY":
        return True
    if op == "NORM":
        return parts[4] != "-"
    if op in ("NORMS",):
        return parts[4] != "-"
    if op == "CMAP_LOAD":
        return True
    if op == "SPLIT":
        return parts[2] != "-"
    if op == "DEC":
        return parts[3] != "-"
    if op == "DECSTEP":
        return impl != "OK " + parts[2]
    return True
