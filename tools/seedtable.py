#!/usr/bin/env python3
"""Rewrites the seeds table of DESIGN.md §10.5 from seeded/*/meta.json."""
import json, glob, os
ROOT = os.path.dirname(os.path.dirname(os.path.abspath(__file__)))
p = os.path.join(ROOT, "DESIGN.md")
s = open(p).read()
rows = []
for d in sorted(glob.glob(os.path.join(ROOT, "seeded", "*", ""))):
    m = json.load(open(d + "meta.json"))
    name = os.path.basename(d.rstrip("/"))
    det = m["detected"]
    if det.startswith("after"):
        short = "after strengthening"
    elif any(w in det for w in ("tie", "without a failing input", "broken")):
        short = "as committed, first without a failing input"
    else:
        short = "as committed"
    checks = "; ".join(c.split(" -> ")[0].replace("./check ", "").replace(" quick", "") for c in m["checks_run_against_it"])
    rows.append("| %s | %s | %s | %s |" % (name, m["breaks_property"], checks, short))
i = s.index("| seed | breaks |")
j = s.index("Details (failure counts")
s = s[:i] + "| seed | breaks | checks run against it | caught |\n|---|---|---|---|\n" + "\n".join(rows) + "\n\n" + s[j:]
open(p, "w").write(s)
print(len(rows), "seeds")
