#!/usr/bin/env python3
"""tools/seedsave.py <seed-dir> <name> <property> <detected: yes|no|after-strengthening> <needs> <checks-run...>
Archives a confirmed seeded change under /verif/seeded/<name>/ (patch.diff, demonstration, meta.json)."""
import json, os, shutil, sys
src, name, prop, detected, needs = sys.argv[1:6]
checks = sys.argv[6:]
dst = os.path.join("/verif/seeded", name)
os.makedirs(dst, exist_ok=True)
for f in ("patch.diff", "seed_demo.rs", "NOTES.md"):
    p = os.path.join(src, "OUT", f)
    if os.path.exists(p):
        shutil.copy(p, os.path.join(dst, f))
logs = {}
for f in ("confirm_with.log", "confirm_without.log", "confirm_suite.log"):
    p = os.path.join(src, "OUT", f)
    if os.path.exists(p):
        lines = [l for l in open(p, errors="replace").read().split("\n") if l.startswith("test result")]
        logs[f] = lines[-2:]
meta = {"breaks_property": prop, "needs_to_manifest": needs,
        "confirmed_by": "tools/seedtest.sh: demonstration fails with the change and passes without it in a scratch worktree; "
                        "30 unit tests + 4 tiktoken tests pass with the change; builds with --features verif-hooks,split",
        "confirmation_logs": logs, "checks_run_against_it": checks, "detected": detected,
        "written_by": "independent sub-agent given only the property text and a scratch worktree"}
json.dump(meta, open(os.path.join(dst, "meta.json"), "w"), indent=1)
print("saved", dst)
