//! Parsing of request lines back into kitoken values (corpus files, replay): the inverse of the
//! encoders in defs.rs / c13.rs.
use crate::util::*;
use kitoken::*;
use std::collections::HashMap;

pub fn parse_char(s: &str) -> Option<char> {
    char::from_u32(s.parse().ok()?)
}
fn parse_bool(s: &str) -> Option<bool> {
    match s {
        "0" => Some(false),
        "1" => Some(true),
        _ => None,
    }
}
fn utf8(b: Vec<u8>) -> Option<String> {
    String::from_utf8(b).ok()
}
enum Pat {
    C(char),
    S(String),
    R(Regex),
}
fn parse_pat(s: &str) -> Option<Pat> {
    let (k, rest) = s.split_at(1);
    Some(match k {
        "c" => Pat::C(parse_char(rest)?),
        "s" => Pat::S(utf8(unhex(rest))?),
        "r" => Pat::R(Regex::new(&utf8(unhex(rest))?).ok()?),
        _ => return None,
    })
}
pub fn parse_decoding(s: &str) -> Option<Decoding> {
    let p: Vec<&str> = s.split('.').collect();
    Some(match p.as_slice() {
        ["EX", c, l, r, pad] => Decoding::Extend {
            character: parse_char(c)?,
            left: l.parse().ok()?,
            right: r.parse().ok()?,
            pad: parse_bool(pad)?,
        },
        ["ST", c, l, r] => Decoding::Strip { character: parse_char(c)?, left: l.parse().ok()?, right: r.parse().ok()? },
        ["CO", c] => Decoding::Collapse { character: parse_char(c)? },
        ["RP", pat, rep] => Decoding::Replace {
            pattern: match parse_pat(pat)? {
                Pat::C(c) => DecodingReplacePattern::Character(c),
                Pat::S(s) => DecodingReplacePattern::String(s),
                Pat::R(r) => DecodingReplacePattern::Regex(r),
            },
            replacement: utf8(unhex(rep))?,
        },
        _ => return None,
    })
}
pub fn charsmap_from_parts(array: &[u8], normalized: &[u8]) -> Option<CharsMap> {
    let mut blob = (array.len() as u32).to_le_bytes().to_vec();
    blob.extend_from_slice(array);
    blob.extend_from_slice(normalized);
    CharsMap::try_from(blob.as_slice()).ok()
}
pub fn parse_normalization(s: &str) -> Option<Normalization> {
    if let Some(rest) = s.strip_prefix("CND~S~") {
        return Some(Normalization::Conditional {
            condition: NormalizationCondition::StartOfText,
            normalization: Box::new(parse_normalization(rest)?),
        });
    }
    if let Some(rest) = s.strip_prefix("CND~E~") {
        return Some(Normalization::Conditional {
            condition: NormalizationCondition::EndOfText,
            normalization: Box::new(parse_normalization(rest)?),
        });
    }
    let p: Vec<&str> = s.split('.').collect();
    use UnicodeNormalization::*;
    Some(match p.as_slice() {
        ["U", "NFC"] => Normalization::Unicode { scheme: NFC },
        ["U", "NFD"] => Normalization::Unicode { scheme: NFD },
        ["U", "NFKC"] => Normalization::Unicode { scheme: NFKC },
        ["U", "NFKD"] => Normalization::Unicode { scheme: NFKD },
        ["NMT"] => Normalization::NMT,
        ["CF", u] => Normalization::CaseFold { upper: parse_bool(u)? },
        ["AP", h] => Normalization::Append { append: utf8(unhex(h))? },
        ["PP", h] => Normalization::Prepend { prepend: utf8(unhex(h))? },
        ["EX", c, l, r, pad] => Normalization::Extend {
            character: parse_char(c)?,
            left: l.parse().ok()?,
            right: r.parse().ok()?,
            pad: parse_bool(pad)?,
        },
        ["ST", c, l, r] => Normalization::Strip { character: parse_char(c)?, left: l.parse().ok()?, right: r.parse().ok()? },
        ["CO", c] => Normalization::Collapse { character: parse_char(c)? },
        ["RP", pat, rep] => Normalization::Replace {
            pattern: match parse_pat(pat)? {
                Pat::C(c) => NormalizationReplacePattern::Character(c),
                Pat::S(s) => NormalizationReplacePattern::String(s),
                Pat::R(r) => NormalizationReplacePattern::Regex(r),
            },
            replacement: utf8(unhex(rep))?,
        },
        ["CM", a, n] => Normalization::CharsMap { map: charsmap_from_parts(&unhex(a), &unhex(n))? },
        _ => return None,
    })
}
pub fn parse_split(s: &str) -> Option<Split> {
    let p: Vec<&str> = s.split('.').collect();
    Some(match p.as_slice() {
        ["US"] => Split::UnicodeScript,
        ["P", pat, b] => Split::Pattern {
            pattern: match parse_pat(pat)? {
                Pat::C(c) => SplitPattern::Character(c),
                Pat::S(s) => SplitPattern::String(s),
                Pat::R(r) => SplitPattern::Regex(r),
            },
            behavior: match *b {
                "MA" => SplitBehavior::Match,
                "RE" => SplitBehavior::Remove,
                "IS" => SplitBehavior::Isolate,
                "ME" => SplitBehavior::Merge,
                "ML" => SplitBehavior::MergeLeft,
                "MR" => SplitBehavior::MergeRight,
                _ => return None,
            },
        },
        _ => return None,
    })
}
pub fn parse_list<T>(s: &str, f: impl Fn(&str) -> Option<T>) -> Option<Vec<T>> {
    if s == "-" {
        return Some(Vec::new());
    }
    s.split(',').map(f).collect()
}
fn parse_position(n: usize) -> Option<InsertionPosition> {
    use InsertionPosition::*;
    [WordStart, WordContinuation, WordEnd, SequenceStart, SequenceContinuation, SequenceEnd, SubSequenceStart, SubSequenceContinuation, SubSequenceEnd]
        .get(n)
        .copied()
}

#[derive(Default)]
pub struct DefBuilder {
    kind: String,
    chars: bool,
    maxw: u32,
    vocab: Vocab,
    scores: Scores,
    specials: SpecialVocab,
    config: Configuration,
}
impl DefBuilder {
    pub fn definition(&self) -> Definition {
        let model = match self.kind.as_str() {
            "unigram" => Model::Unigram { vocab: self.vocab.clone(), scores: self.scores.clone() },
            "wordpiece" => Model::WordPiece { vocab: self.vocab.clone(), max_word_chars: self.maxw },
            _ => Model::BytePair { vocab: self.vocab.clone(), chars: self.chars },
        };
        Definition { meta: Metadata::default(), model, specials: self.specials.clone(), config: self.config.clone() }
    }
}

/// State of `kvh run`: definitions under construction and built tokenizers, by slot.
#[derive(Default)]
pub struct RunState {
    pub building: HashMap<usize, DefBuilder>,
    pub toks: HashMap<usize, Kitoken>,
    pub defs: HashMap<usize, Definition>,
}

/// Handles a `DEF …` request; returns the answer ("" for state-only lines).
pub fn run_def(st: &mut RunState, w: &[&str]) -> Option<String> {
    let slot: usize = w.get(1)?.parse().ok()?;
    let b = st.building.entry(slot).or_default();
    match &w[2..] {
        ["NEW", kind, chars, maxw] => {
            *b = DefBuilder { kind: kind.to_string(), chars: parse_bool(chars)?, maxw: maxw.parse().ok()?, ..Default::default() };
        }
        ["V", id, h, score] => {
            b.vocab.push(Token { id: id.parse().ok()?, bytes: unhex(h) });
            if *score != "none" {
                b.scores.push(f32::from_bits(score.parse().ok()?));
            }
        }
        ["XS", score] => b.scores.push(f32::from_bits(score.parse().ok()?)),
        ["S", id, h, kind, extract, score, ident] => b.specials.push(SpecialToken {
            id: id.parse().ok()?,
            bytes: unhex(h),
            kind: match *kind {
                "U" => SpecialTokenKind::Unknown,
                "C" => SpecialTokenKind::Control,
                "P" => SpecialTokenKind::Priority,
                _ => return None,
            },
            ident: if *ident == "none" { None } else { Some(utf8(unhex(ident))?) },
            score: f32::from_bits(score.parse().ok()?),
            extract: parse_bool(extract)?,
        }),
        ["FB", l] => {
            b.config.fallback = parse_list(l, |x| match x {
                "S" => Some(Fallback::Skip),
                "U" => Some(Fallback::Unknown),
                "B" => Some(Fallback::Bytes),
                _ => None,
            })?
        }
        ["N", e] => b.config.normalization.push(parse_normalization(e)?),
        ["SP", e] => b.config.split.push(parse_split(e)?),
        ["PR", e] => b.config.processing.push(crate::c13::parse_proc(e)?),
        ["DC", e] => b.config.decoding.push(parse_decoding(e)?),
        ["TPL", pos, h] => b.config.templates.push(Template { content: utf8(unhex(h))?, position: parse_position(pos.parse().ok()?)? }),
        ["END"] => {
            let def = b.definition();
            st.defs.insert(slot, def.clone());
            let built = guarded(|| Kitoken::from_definition(def));
            st.building.remove(&slot);
            return Some(match built {
                Some(r) => {
                    let a = crate::defs::init_answer(&r);
                    match r {
                        Ok(t) => {
                            st.toks.insert(slot, t);
                        }
                        Err(_) => {
                            st.toks.remove(&slot);
                        }
                    }
                    a
                }
                None => "PANIC".into(),
            });
        }
        _ => return None,
    }
    Some(String::new())
}

/// ENC-like (`ENC`, `BPE`, `UNI`, `WP`) and `DEC` requests: returns the request rewritten with a fresh
/// oracle table and the implementation's answer.
pub fn run_encdec(st: &RunState, w: &[&str]) -> Option<(String, String)> {
    let args: Vec<&str> = w.iter().copied().filter(|x| !x.starts_with("ORA:")).collect();
    let slot: usize = args.get(1)?.parse().ok()?;
    let tok = st.toks.get(&slot)?;
    let s = parse_bool(args.get(2)?)?;
    match args[0] {
        "DEC" => {
            let ids = crate::c13::parse_ids(args.get(3)?)?;
            let (a, ora) = crate::defs::dec_answer(tok, &ids, s);
            Some((format!("DEC {} {} {}{}", slot, s as u8, args[3], ora), a))
        }
        op => {
            let text = utf8(unhex(args.get(3)?))?;
            let (a, ora) = crate::defs::enc_answer(tok, &text, s);
            Some((format!("{} {} {} {}{}", op, slot, s as u8, args[3], ora), a))
        }
    }
}
