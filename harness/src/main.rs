//! Correspondence harness: generates cases, runs the real kitoken code in-process and writes
//! `OP args :: implementation answer` lines for the Lean driver.
mod c08;
mod c10;
mod c11;
mod c12;
mod c13;
mod c14;
mod c15;
mod c16;
mod c17;
mod c19;
mod c20;
mod defs;
mod enc;
mod gen;
mod parse;
mod pieces;
mod rng;
mod sink;
mod smoke;
mod util;

use std::io::Write;

/// Recomputes the implementation's answer for one request line: `(request, answer)`; the request
/// may be rewritten (fresh oracle table). An empty answer marks a state-only line (DEF …).
fn run_line(state: &mut parse::RunState, request: &str) -> Option<(String, String)> {
    let words: Vec<&str> = request.split(' ').filter(|w| !w.is_empty()).collect();
    match words.first().copied() {
        Some("PROC") => c13::run_request(&words).map(|a| (request.to_string(), a)),
        Some("DECSTEP") => {
            let args: Vec<&str> = words.iter().copied().filter(|x| !x.starts_with("ORA:")).collect();
            let steps = parse::parse_list(args.get(1)?, parse::parse_decoding)?;
            let text = util::unhex(args.get(2)?);
            Some((String::new(), String::new())).map(|_| {
                let l = c13::decstep_line(&steps, &text);
                let mut it = l.splitn(2, " :: ");
                (it.next().unwrap().to_string(), it.next().unwrap().to_string())
            })
        }
        Some("NORM") => c11::run_request(&words),
        Some("SPLIT") => c10::run_request(&words),
        Some("CMAP_LOAD") | Some("NORMS") => c12::run_request(state, &words),
        Some("INITB") | Some("LOADF") => c17::run_request(&words),
        Some("DESER") | Some("TODEF") => c14::run_request(&words),
        Some("DEF") => parse::run_def(state, &words).map(|a| (request.to_string(), a)),
        Some("ENC") | Some("ENC2") | Some("ENC7") | Some("ENC9") | Some("ENC18") | Some("DEC") | Some("BPE") | Some("UNI") | Some("WP") => parse::run_encdec(state, &words),
        _ => None,
    }
}

fn main() {
    let args: Vec<String> = std::env::args().collect();
    if args.len() < 2 {
        eprintln!("usage: kvh gen <property> <quick|thorough> <seed> <out-prefix> | kvh run <in.ops> <out.ops>");
        std::process::exit(2);
    }
    if std::env::var("KVH_VERBOSE").is_err() {
        util::silence_panics();
    }
    match args[1].as_str() {
        "child-load" => c17::child_main(),
        "cmp3" => c16::cmp3(),
        "child-c19" => c19::child_main(&args[2..]),
        "gen" => {
            let prop = args[2].as_str();
            let thorough = args[3] == "thorough";
            let seed: u64 = args[4].parse().expect("seed");
            let shards: usize = std::env::var("KVH_SHARDS").ok().and_then(|s| s.parse().ok()).unwrap_or(1);
            let mut rng = rng::Rng::new(seed);
            let mut out = sink::Sink::new(shards);
            match prop {
                "C01" | "C02" | "C07" | "C09" | "C18" => enc::gen(prop, &mut rng, thorough, &mut out),
                "C03" | "C04" | "C05" | "C06" => pieces::gen(prop, &mut rng, thorough, &mut out),
                "C08" => c08::gen(&mut rng, thorough, &mut out),
                "C10" => c10::gen(&mut rng, thorough, &mut out),
                "C11" => c11::gen(&mut rng, thorough, &mut out),
                "C12" => c12::gen(&mut rng, thorough, &mut out),
                "C15" => c15::gen(&mut rng, thorough, &mut out),
                "C16" => c16::gen(&mut rng, thorough, &mut out),
                "C17" => c17::gen(&mut rng, thorough, &mut out),
                "C19" => c19::gen(&mut rng, thorough, &mut out),
                "C20" => c20::gen(&mut rng, thorough, &mut out),
                "C14" => c14::gen(&mut rng, thorough, &mut out),
                "C13" => c13::gen(&mut rng, thorough, &mut out),
                "SMOKE" => smoke::gen(&mut rng, thorough, &mut out),
                _ => {
                    eprintln!("unknown property {}", prop);
                    std::process::exit(2);
                }
            }
            for l in defs::ORACLE_FAILS.lock().unwrap().drain(..) {
                out.push(l);
            }
            out.write(&args[5]);
        }
        "run" => {
            let text = std::fs::read_to_string(&args[2]).expect("read");
            let mut f = std::io::BufWriter::new(std::fs::File::create(&args[3]).expect("create"));
            let mut state = parse::RunState::default();
            for line in text.lines() {
                let line = line.trim();
                if line.is_empty() || line.starts_with('#') {
                    continue;
                }
                let request = line.split(" :: ").next().unwrap().trim();
                // converter checks (C15): the parsed source and the implementation's conversion are carried by the
                // recorded lines themselves; a replay re-evaluates the model and the verdict on them
                let op = request.split(' ').next().unwrap_or("");
                if ["SRCT", "HFA", "HFV", "HFM", "SPT", "SPP", "KEEPS", "CONVTT", "CONVTK", "CONVHF", "CONVSP", "IMPLEQ", "BYTETAB", "BYTEPIECE"].contains(&op) {
                    writeln!(f, "{}", line).unwrap();
                    continue;
                }
                match run_line(&mut state, request) {
                    Some((request, answer)) if answer.is_empty() => writeln!(f, "{}", request).unwrap(),
                    Some((request, answer)) => writeln!(f, "{} :: {}", request, answer).unwrap(),
                    None => {
                        eprintln!("cannot run request: {}", request);
                        std::process::exit(3);
                    }
                }
            }
        }
        _ => {
            eprintln!("unknown command");
            std::process::exit(2);
        }
    }
}
