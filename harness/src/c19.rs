//! C19 — purity, thread-safety and determinism.
//!
//! * `ENC` / `DEC` lines whose implementation answer was obtained *inside a concurrent run* (2–16
//!   threads sharing one tokenizer, released together by a barrier) or at some position of a call
//!   history; the Lean model is a function of tokenizer and input, so the tie compares every such
//!   answer with the history-free one.
//! * `IMPLEQ` lines: the same comparison done on the implementation alone against an isolated call
//!   (a fresh tokenizer built from the same definition, one call), over histories, thread counts, fresh
//!   processes (hash seeds, first use of lazily initialised statics raced by several threads) and
//!   the build without CPU dispatch (`KVH_PLAIN` = path of that binary).
use crate::defs::*;
use crate::gen::*;
use crate::rng::Rng;
use crate::sink::Sink;
use crate::util::*;
use kitoken::*;
use std::sync::{Arc, Barrier};

pub fn fnv(data: &[u8]) -> u64 {
    let mut h: u64 = 0xcbf29ce484222325;
    for b in data {
        h ^= *b as u64;
        h = h.wrapping_mul(0x100000001b3);
    }
    h
}

fn shuffle<T>(rng: &mut Rng, v: &mut [T]) {
    for i in (1..v.len()).rev() {
        let j = rng.below(i + 1);
        v.swap(i, j);
    }
}

fn enc_plain(tok: &Kitoken, text: &str, specials: bool) -> String {
    match guarded(|| tok.encode(text, specials)) {
        Some(Ok(ids)) => format!("OK {}", ids_str(&ids)),
        Some(Err(EncodeError::InvalidPiece(p))) => format!("ERR piece {}", hex(&p)),
        Some(Err(_)) => "ERR other".into(),
        None => "PANIC".into(),
    }
}

fn dec_plain(tok: &Kitoken, ids: &[u32], specials: bool) -> String {
    match guarded(|| tok.decode(ids, specials)) {
        Some(Ok(b)) => format!("OK {}", hex(&b)),
        Some(Err(DecodeError::InvalidToken(t))) => format!("ERR token {}", t),
        Some(Err(_)) => "ERR other".into(),
        None => "PANIC".into(),
    }
}

fn parse_ok_ids(a: &str) -> Option<Vec<u32>> {
    let rest = a.strip_prefix("OK ")?;
    if rest == "-" {
        return Some(Vec::new());
    }
    rest.split(',').map(|x| x.parse().ok()).collect()
}

/// Texts used for digests: a deterministic function of the seed (both builds compute the same list).
pub fn digest_texts(seed: u64, n: usize) -> Vec<String> {
    let mut rng = Rng::new(seed);
    let corpus: Vec<String> = ["small_input.txt", "mixed_input.txt", "utf8_input.txt"]
        .iter()
        .flat_map(|f| std::fs::read_to_string(format!("/repo/tests/data/{}", f)).unwrap_or_default().lines().map(|l| l.to_string()).collect::<Vec<_>>())
        .filter(|l| l.len() < 400)
        .collect();
    (0..n)
        .map(|k| match k % 3 {
            0 if !corpus.is_empty() => rng.pick(&corpus).clone(),
            1 => random_text(&mut rng, 5),
            _ => random_string(&mut rng, &['a', 'b', ' ', 'é', '▁', 'A', '\u{0301}', '\u{200b}', '\u{a0}', '語', '\n'], 24),
        })
        .collect()
}

/// Digest of the encode and decode answers of `tok` on the digest texts.
pub fn answers_digest(tok: &Kitoken, texts: &[String]) -> u64 {
    let mut all = String::new();
    for (i, t) in texts.iter().enumerate() {
        let a = enc_plain(tok, t, i % 2 == 0);
        if let Some(ids) = parse_ok_ids(&a) {
            all.push_str(&dec_plain(tok, &ids, i % 2 == 0));
        }
        all.push_str(&a);
        all.push('\n');
    }
    fnv(all.as_bytes())
}

/// `kvh child-c19 conv <path>` | `race <path> <threads> <seed> <n>` | `digest <path> <seed> <n>`.
struct QuietLogger;
impl log::Log for QuietLogger {
    fn enabled(&self, _: &log::Metadata) -> bool {
        true
    }
    fn log(&self, _: &log::Record) {}
    fn flush(&self) {}
}
static QUIET: QuietLogger = QuietLogger;

pub fn child_main(args: &[String]) {
    // process-wide state that is not the library's own: a logger with every level enabled. What the library
    // computes must not depend on whether its diagnostics are listened to.
    if std::env::var("KVH_LOG").is_ok() {
        let _ = log::set_logger(&QUIET);
        log::set_max_level(log::LevelFilter::Trace);
    }
    let mode = args[0].as_str();
    let path = &args[1];
    let def = match Definition::from_file(path) {
        Ok(d) => d,
        Err(_) => {
            println!("ERR load");
            return;
        }
    };
    match mode {
        "conv" => {
            // conversion, serialization, and the export through the tokenizer's hash maps
            let bytes = def.to_vec();
            let export = match guarded(|| Kitoken::from_definition(def.clone()).map(|t| t.to_definition().to_vec())) {
                Some(Ok(b)) => format!("{:016x}", fnv(&b)),
                Some(Err(_)) => "ERR init".into(),
                None => "PANIC".into(),
            };
            println!("{:016x} {} {}", fnv(&bytes), bytes.len(), export);
        }
        "race" => {
            let k: usize = args[2].parse().unwrap();
            let seed: u64 = args[3].parse().unwrap();
            let n: usize = args[4].parse().unwrap();
            let texts = Arc::new(digest_texts(seed, n));
            let tok = match Kitoken::from_definition(def) {
                Ok(t) => Arc::new(t),
                Err(_) => {
                    println!("ERR init");
                    return;
                }
            };
            let barrier = Arc::new(Barrier::new(k));
            let handles: Vec<_> = (0..k)
                .map(|_| {
                    let (tok, texts, barrier) = (tok.clone(), texts.clone(), barrier.clone());
                    std::thread::spawn(move || {
                        barrier.wait();
                        // the very first calls of this process, from all threads at once
                        answers_digest(&tok, &texts)
                    })
                })
                .collect();
            let ds: Vec<String> = handles.into_iter().map(|h| h.join().map(|d| format!("{:016x}", d)).unwrap_or("PANIC".into())).collect();
            println!("{}", ds.join(" "));
        }
        "digest" => {
            let seed: u64 = args[2].parse().unwrap();
            let n: usize = args[3].parse().unwrap();
            let texts = digest_texts(seed, n);
            match Kitoken::from_definition(def) {
                Ok(t) => println!("{:016x}", answers_digest(&t, &texts)),
                Err(_) => println!("ERR init"),
            }
        }
        _ => println!("ERR mode"),
    }
}

fn child(exe: &std::path::Path, args: &[String]) -> String {
    child_env(exe, args, false)
}

fn child_env(exe: &std::path::Path, args: &[String], logging: bool) -> String {
    let mut cmd = std::process::Command::new(exe);
    cmd.arg("child-c19").args(args).stderr(std::process::Stdio::null());
    if logging {
        cmd.env("KVH_LOG", "1");
    } else {
        cmd.env_remove("KVH_LOG");
    }
    match cmd.output() {
        Ok(o) if o.status.success() => String::from_utf8_lossy(&o.stdout).trim().to_string(),
        Ok(o) => format!("CRASH {:?}", o.status.code()),
        Err(e) => format!("SPAWN {}", e),
    }
}

/// Histories and threads on one tokenizer. `fresh` builds a new tokenizer from the same definition.
fn histories_and_threads(rng: &mut Rng, tk: &Tk, texts: &[String], fresh_per_call: bool, nthreads: usize, out: &mut Sink, lines: &mut Vec<String>) {
    let shared = match &tk.tok {
        Some(t) => t,
        None => return,
    };
    // isolated answers
    let mut fresh = guarded(|| Kitoken::from_definition(tk.def.clone()).ok()).flatten();
    let mut iso: Vec<(String, Option<String>)> = Vec::new();
    for (i, t) in texts.iter().enumerate() {
        if fresh_per_call || i < 2 {
            fresh = guarded(|| Kitoken::from_definition(tk.def.clone()).ok()).flatten();
        }
        let f = match &fresh {
            Some(f) => f,
            None => return,
        };
        let s = i % 2 == 0;
        let a = enc_plain(f, t, s);
        let d = parse_ok_ids(&a).map(|ids| dec_plain(f, &ids, s));
        iso.push((a, d));
    }
    // a call history on the shared tokenizer: every text twice, shuffled, interleaved with decodes
    // and unrelated inputs
    let mut order: Vec<usize> = (0..texts.len()).chain(0..texts.len()).collect();
    shuffle(rng, &mut order);
    let mut diff: Option<String> = None;
    for &i in &order {
        let s = i % 2 == 0;
        if rng.chance(1, 3) {
            let _ = enc_plain(shared, &random_text(rng, 3), !s);
        }
        let a = enc_plain(shared, &texts[i], s);
        if a != iso[i].0 && diff.is_none() {
            diff = Some(format!("DIFF encode text={} isolated=[{}] in-history=[{}]", hex(texts[i].as_bytes()), iso[i].0, a));
        }
        if let Some(ids) = parse_ok_ids(&a) {
            let d = dec_plain(shared, &ids, s);
            if Some(&d) != iso[i].1.as_ref() && diff.is_none() {
                diff = Some(format!("DIFF decode ids={} isolated=[{:?}] in-history=[{}]", ids_str(&ids), iso[i].1, d));
            }
        }
    }
    lines.push(format!("IMPLEQ history slot={} calls={} :: {}", tk.slot, order.len(), diff.unwrap_or("OK".into())));
    out.count("histories");
    // threads
    let barrier = Barrier::new(nthreads);
    let seeds: Vec<u64> = (0..nthreads).map(|_| rng.next()).collect();
    let results: Vec<Vec<(usize, String, String, Option<(String, String)>)>> = std::thread::scope(|sc| {
        let hs: Vec<_> = seeds
            .iter()
            .map(|&seed| {
                let barrier = &barrier;
                sc.spawn(move || {
                    let mut r = Rng::new(seed);
                    let mut order: Vec<usize> = (0..texts.len()).collect();
                    shuffle(&mut r, &mut order);
                    barrier.wait();
                    let mut res = Vec::new();
                    for i in order {
                        let s = i % 2 == 0;
                        let (a, ora) = enc_answer(shared, &texts[i], s);
                        let d = parse_ok_ids(&a).map(|ids| dec_answer(shared, &ids, s));
                        res.push((i, a, ora, d));
                    }
                    res
                })
            })
            .collect();
        hs.into_iter().map(|h| h.join().unwrap_or_default()).collect()
    });
    let mut diff: Option<String> = None;
    for (t, res) in results.iter().enumerate() {
        if res.len() != texts.len() && diff.is_none() {
            diff = Some(format!("DIFF thread {} died", t));
        }
        for (i, a, _, d) in res {
            if *a != iso[*i].0 && diff.is_none() {
                diff = Some(format!("DIFF encode thread={} text={} isolated=[{}] concurrent=[{}]", t, hex(texts[*i].as_bytes()), iso[*i].0, a));
            }
            if d.as_ref().map(|x| &x.0) != iso[*i].1.as_ref() && diff.is_none() {
                diff = Some(format!("DIFF decode thread={} text={}", t, hex(texts[*i].as_bytes())));
            }
        }
    }
    lines.push(format!("IMPLEQ threads slot={} threads={} texts={} :: {}", tk.slot, nthreads, texts.len(), diff.unwrap_or("OK".into())));
    out.count(&format!("threads_{}", nthreads));
    // the answers of the last thread go to the model
    if let Some(res) = results.last() {
        for (i, a, ora, d) in res {
            let s = (*i % 2 == 0) as u8;
            lines.push(format!("ENC {} {} {}{} :: {}", tk.slot, s, hex(texts[*i].as_bytes()), ora, a));
            if let (Some(toks), Some((da, dora))) = (parse_ok_ids(a), d) {
                lines.push(format!("DEC {} {} {}{} :: {}", tk.slot, s, ids(&toks), dora, da));
            }
            out.count("concurrent_answers_to_model");
        }
    }
}

pub fn gen(rng: &mut Rng, thorough: bool, out: &mut Sink) {
    let exe = std::env::current_exe().expect("exe");
    let plain = std::env::var("KVH_PLAIN").ok().map(std::path::PathBuf::from).filter(|p| p.exists());
    let thread_counts = [2usize, 3, 4, 8, 16];
    let mut slot = 0usize;
    // ---- generated definitions
    let ndefs = if thorough { 400 } else { 40 };
    for d in 0..ndefs {
        let mut def = crate::enc::gen_full_definition(rng, false, false);
        if d % 2 == 1 {
            // different tokenizers of one process with different multi-byte split characters and patterns:
            // nothing one tokenizer does may show in another
            crate::enc::c18_spice(rng, &mut def);
        }
        if d % 4 == 3 {
            // each model kind in turn (the exports of the three kinds are three different functions)
            for _ in 0..12 {
                let want = (d / 4) % 3;
                let is = match &def.model {
                    Model::WordPiece { .. } => 0,
                    Model::Unigram { .. } => 1,
                    _ => 2,
                };
                if is == want {
                    break;
                }
                def = crate::enc::gen_full_definition(rng, false, false);
            }
            // two vocabulary entries that share an id: whatever orders entries by id needs a further key, or the
            // order of the export comes from a hash map
            match &mut def.model {
                Model::BytePair { vocab, .. } | Model::Unigram { vocab, .. } | Model::WordPiece { vocab, .. } => {
                    if vocab.len() >= 3 {
                        let a = vocab[0].id;
                        let k = rng.range(1, vocab.len() - 1);
                        vocab[k].id = a;
                        for _ in 0..3 {
                            let k2 = rng.range(1, vocab.len() - 1);
                            vocab[k2].id = a;
                        }
                    }
                }
                #[allow(unreachable_patterns)]
                _ => {}
            }
        }
        let mut lines = Vec::new();
        let tk = load(slot, "generated", def, &mut lines);
        slot += 1;
        if tk.tok.is_none() {
            out.group(lines);
            continue;
        }
        // the export of several tokenizers built from this definition, here and in a fresh process: one answer
        {
            let export_of = |def: &Definition| match guarded(|| Kitoken::from_definition(def.clone()).map(|t| t.to_definition().to_vec())) {
                Some(Ok(b)) => format!("{:016x}", fnv(&b)),
                Some(Err(_)) => "ERR init".to_string(),
                None => "PANIC".to_string(),
            };
            let first = export_of(&tk.def);
            let differs = (0..6).any(|_| export_of(&tk.def) != first);
            let p = std::env::current_dir().unwrap().join(format!("c19_exp_{}.kit", d));
            let bytes = tk.def.to_vec();
            let fresh = if std::fs::write(&p, &bytes).is_ok() {
                let o = child(&exe, &["conv".into(), p.to_string_lossy().to_string()]);
                let _ = std::fs::remove_file(&p);
                o
            } else {
                String::new()
            };
            let own = format!("{:016x} {} {}", fnv(&bytes), bytes.len(), first);
            let verdict = if differs {
                "DIFF tokenizers built from one definition in one process export different definitions".to_string()
            } else if fresh != own {
                format!("DIFF this-process=[{}] fresh-process=[{}]", own, fresh)
            } else {
                "OK".to_string()
            };
            lines.push(format!("IMPLEQ export-generated generated{} {} :: {}", d, hex(&bytes[..bytes.len().min(3000)]), verdict));
            out.count("generated_exports_compared");
        }
        let texts: Vec<String> = (0..(if thorough { 24 } else { 12 })).map(|_| crate::enc::text_for_pub(rng, &tk.def)).collect();
        histories_and_threads(rng, &tk, &texts, true, thread_counts[d % thread_counts.len()], out, &mut lines);
        // the same definition in a fresh process (nothing else has run there) must answer as it does here,
        // where many other tokenizers have been used before
        if let Some(tok) = &tk.tok {
            let p = std::env::current_dir().unwrap().join(format!("c19_def_{}.kit", d));
            if std::fs::write(&p, tk.def.to_vec()).is_ok() {
                let sd = rng.next() % 1_000_000;
                let n = 10;
                let mut dtexts = digest_texts(sd, n);
                dtexts.truncate(n);
                let want = format!("{:016x}", answers_digest(tok, &dtexts));
                let got = child(&exe, &["digest".into(), p.to_string_lossy().to_string(), sd.to_string(), n.to_string()]);
                let _ = std::fs::remove_file(&p);
                lines.push(format!(
                    "IMPLEQ fresh-process-vs-this-process generated{} seed={} :: {}",
                    d,
                    sd,
                    if got == want { "OK".to_string() } else { format!("DIFF this-process=[{}] fresh-process=[{}] definition={}", want, got, hex(&tk.def.to_vec()[..tk.def.to_vec().len().min(3000)])) }
                ));
                out.count("fresh_process_comparisons");
            }
        }
        out.group(lines);
    }
    // ---- shipped models
    let models = shipped_models();
    let seed = rng.next() % 1_000_000;
    for (m, (name, path)) in models.iter().enumerate() {
        let def = match Definition::from_file(path) {
            Ok(d) => d,
            Err(_) => continue,
        };
        let mut lines = Vec::new();
        let own_bytes = def.to_vec();
        let tk = load(slot, name, def, &mut lines);
        slot += 1;
        let texts = digest_texts(seed + m as u64, if thorough { 40 } else { 12 });
        histories_and_threads(rng, &tk, &texts, false, thread_counts[m % thread_counts.len()], out, &mut lines);
        // fresh processes: conversion + serialization + export are byte-identical across processes
        let nproc = if thorough { 8 } else { 3 };
        let p = path.to_string_lossy().to_string();
        let own_export = match guarded(|| tk.tok.as_ref().map(|t| t.to_definition().to_vec())) {
            Some(Some(b)) => format!("{:016x}", fnv(&b)),
            _ => "ERR init".into(),
        };
        let own = format!("{:016x} {} {}", fnv(&own_bytes), own_bytes.len(), own_export);
        let outs: Vec<String> = std::thread::scope(|sc| {
            let hs: Vec<_> = (0..nproc).map(|_| sc.spawn(|| child(&exe, &["conv".into(), p.clone()]))).collect();
            hs.into_iter().map(|h| h.join().unwrap_or("JOIN".into())).collect()
        });
        let bad = outs.iter().find(|o| **o != own);
        lines.push(format!(
            "IMPLEQ processes {} n={} :: {}",
            name,
            nproc,
            match bad {
                None => "OK".to_string(),
                Some(b) => format!("DIFF this-process=[{}] fresh-process=[{}]", own, b),
            }
        ));
        out.count("conversion_process_sets");
        // first use of everything lazily initialised, raced by k threads in a fresh process
        if let Some(tok) = &tk.tok {
            let n = if thorough { 24 } else { 8 };
            let dtexts = digest_texts(seed + 77 + m as u64, n);
            let want = format!("{:016x}", answers_digest(tok, &dtexts));
            let k = thread_counts[(m + 1) % thread_counts.len()];
            let races = if thorough { 4 } else { 1 };
            let mut verdict = "OK".to_string();
            for _ in 0..races {
                let o = child(&exe, &["race".into(), p.clone(), k.to_string(), (seed + 77 + m as u64).to_string(), n.to_string()]);
                if o.split(' ').count() != k || o.split(' ').any(|d| d != want) {
                    verdict = format!("DIFF sequential=[{}] raced=[{}]", want, o);
                    break;
                }
            }
            lines.push(format!("IMPLEQ first-use-race {} threads={} :: {}", name, k, verdict));
            out.count("first_use_races");
            // the build without CPU dispatch
            if let Some(plain) = &plain {
                let o = child(plain, &["digest".into(), p.clone(), (seed + 77 + m as u64).to_string(), n.to_string()]);
                lines.push(format!("IMPLEQ plain-build {} :: {}", name, if o == want { "OK".to_string() } else { format!("DIFF dispatch=[{}] plain=[{}]", want, o) }));
                out.count("plain_build_comparisons");
            }
        }
        out.group(lines);
    }
    // ---- generated sources of every foreign format: repeated conversion in this process and in fresh ones
    let nsrc = if thorough { 400 } else { 60 };
    let work = std::env::current_dir().unwrap();
    for v in 0..nsrc {
        let (fmt, bytes) = match v % 5 {
            4 => ("tokenizers", crate::c17::hf_zoo(rng, v)),
            0 => ("tokenizers", crate::c17::hf_json(rng, v * 3)),
            1 => ("sentencepiece", crate::c17::sp_model(rng, v)),
            2 => ("tokenizers", crate::c17::hf_json(rng, v)),
            _ => ("tekken", crate::c17::tekken_json(rng, v)),
        };
        let first = match guarded(|| Definition::from_slice(&bytes).ok()).flatten() {
            Some(d) => d.to_vec(),
            None => {
                out.count("generated_sources_rejected");
                continue;
            }
        };
        let again_differs = (0..4).any(|_| guarded(|| Definition::from_slice(&bytes).ok().map(|d| d.to_vec())).flatten().as_deref() != Some(&first[..]));
        let p = work.join(format!("c19_src_{}.bin", v));
        std::fs::write(&p, &bytes).unwrap();
        let own = {
            let export = match guarded(|| Definition::from_slice(&bytes).ok().and_then(|d| Kitoken::from_definition(d).ok()).map(|t| t.to_definition().to_vec())) {
                Some(Some(b)) => format!("{:016x}", fnv(&b)),
                Some(None) => "ERR init".into(),
                None => "PANIC".into(),
            };
            format!("{:016x} {} {}", fnv(&first), first.len(), export)
        };
        let nproc = if thorough { 4 } else { 2 };
        // the last of the fresh processes runs with a logger that listens to every level
        let outs: Vec<String> = (0..nproc).map(|k| child_env(&exe, &["conv".into(), p.to_string_lossy().to_string()], k + 1 == nproc)).collect();
        let _ = std::fs::remove_file(&p);
        let bad = outs.iter().find(|o| **o != own);
        let verdict = if again_differs {
            "DIFF repeated conversion in one process gives different bytes".to_string()
        } else if let Some(b) = bad {
            format!("DIFF this-process=[{}] fresh-process=[{}]", own, b)
        } else {
            "OK".to_string()
        };
        out.push(format!("IMPLEQ conversion-generated {} {} :: {}", fmt, hex(&bytes[..bytes.len().min(4000)]), verdict));
        out.count(&format!("generated_sources_{}", fmt));
    }
    if plain.is_none() {
        out.push("IMPLEQ plain-build missing :: DIFF the build without CPU dispatch is not available (KVH_PLAIN)".into());
    }
}
