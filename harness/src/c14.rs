//! C14 — serialization and tokenizer <-> definition round trips: DESER (`to_vec(from_slice(bytes))`),
//! TODEF (`from_slice -> Kitoken -> to_definition -> to_vec`), IMPLEQ (field-by-field equality and
//! behaviour equality of rebuilt tokenizers, computed on the implementation side).
//! Also used by C17 (mutated files) through `deser_line`.
use crate::defs::*;
use crate::enc::gen_full_definition;
use crate::gen::*;
use crate::rng::Rng;
use crate::sink::Sink;
use crate::util::*;
use kitoken::*;

pub fn deser_answer(bytes: &[u8]) -> (String, String) {
    kitoken::verif::start();
    // the native branch only: a foreign format must not be mistaken for a native file (C15), so a
    // file without the magic is expected to be rejected by this op
    let r = guarded(|| {
        if bytes.len() >= 9 && &bytes[..7] == b"kitoken" {
            Definition::from_slice(bytes).ok().map(|d| d.to_vec())
        } else {
            None
        }
    });
    let ora = oracle_words();
    match r {
        Some(Some(v)) => (format!("OK {}", hex(&v)), ora),
        Some(None) => ("ERR".into(), ora),
        None => ("PANIC".into(), ora),
    }
}
pub fn deser_line(bytes: &[u8]) -> String {
    let (a, ora) = deser_answer(bytes);
    format!("DESER {}{} :: {}", hex(bytes), ora, a)
}

pub fn todef_answer(bytes: &[u8]) -> (String, String) {
    kitoken::verif::start();
    let r = guarded(|| {
        if !(bytes.len() >= 9 && &bytes[..7] == b"kitoken") {
            return "ERR deser".to_string();
        }
        match Definition::from_slice(bytes) {
            Err(_) => "ERR deser".to_string(),
            Ok(d) => match Kitoken::from_definition(d) {
                Err(_) => "ERR init".to_string(),
                Ok(t) => format!("OK {}", hex(&t.to_definition().to_vec())),
            },
        }
    });
    let ora = oracle_words();
    (r.unwrap_or_else(|| "PANIC".into()), ora)
}
pub fn todef_line(bytes: &[u8]) -> String {
    let (a, ora) = todef_answer(bytes);
    format!("TODEF {}{} :: {}", hex(bytes), ora, a)
}

/// Field-by-field equality including what `PartialEq` ignores (special ident, score bits, extract).
fn defs_identical(a: &Definition, b: &Definition) -> bool {
    // `==` on definitions compares unigram scores as numbers (NaN != NaN): scores are compared by their bits below
    let blank = |d: &Definition| {
        let mut d = d.clone();
        if let Model::Unigram { scores, .. } = &mut d.model {
            for s in scores.iter_mut() {
                *s = 0.0;
            }
        }
        d
    };
    if blank(a) != blank(b) {
        return false;
    }
    if a.specials.len() != b.specials.len() {
        return false;
    }
    for (x, y) in a.specials.iter().zip(b.specials.iter()) {
        if x.ident != y.ident || x.score.to_bits() != y.score.to_bits() || x.extract != y.extract || x.id != y.id || x.bytes != y.bytes {
            return false;
        }
    }
    match (&a.model, &b.model) {
        (Model::Unigram { scores: s1, .. }, Model::Unigram { scores: s2, .. }) => {
            s1.len() == s2.len() && s1.iter().zip(s2.iter()).all(|(p, q)| p.to_bits() == q.to_bits())
        }
        _ => true,
    }
}

/// Variation of a generated definition that exercises every enum variant and extreme values.
fn spice(rng: &mut Rng, def: &mut Definition) {
    let c = &mut def.config;
    if rng.chance(1, 2) {
        c.normalization.push(Normalization::Conditional {
            condition: NormalizationCondition::EndOfText,
            normalization: Box::new(Normalization::Conditional {
                condition: NormalizationCondition::StartOfText,
                normalization: Box::new(Normalization::Append { append: "é▁".into() }),
            }),
        });
    }
    if rng.chance(1, 3) {
        c.normalization.push(Normalization::Replace {
            pattern: NormalizationReplacePattern::Regex(Regex::new(r"(\p{M})+").unwrap()),
            replacement: "$1".into(),
        });
        c.normalization.push(Normalization::Replace { pattern: NormalizationReplacePattern::Character('語'), replacement: "".into() });
    }
    if rng.chance(1, 3) {
        c.normalization.push(Normalization::CaseFold { upper: rng.chance(1, 2) });
        c.normalization.push(Normalization::Unicode { scheme: *rng.pick(&[UnicodeNormalization::NFC, UnicodeNormalization::NFD, UnicodeNormalization::NFKC, UnicodeNormalization::NFKD]) });
        c.normalization.push(Normalization::NMT);
        c.normalization.push(Normalization::Prepend { prepend: "x".into() });
        c.normalization.push(Normalization::Collapse { character: '😀' });
        c.normalization.push(Normalization::Strip { character: ' ', left: u32::MAX, right: 0 });
    }
    if rng.chance(1, 4) {
        let units = crate::c12::build_trie(&[(b"a".to_vec(), 0), ("é".as_bytes().to_vec(), 2)]);
        let blob = crate::c12::blob_of(&units, b"X\0e\0");
        if let Ok(map) = CharsMap::try_from(blob.as_slice()) {
            c.normalization.push(Normalization::CharsMap { map });
        }
    }
    if rng.chance(1, 3) {
        c.split.push(Split::UnicodeScript);
        c.split.push(Split::Pattern { pattern: SplitPattern::String("ab".into()), behavior: SplitBehavior::Match });
    }
    if rng.chance(1, 3) {
        c.decoding.push(Decoding::Extend { character: '▁', left: 1, right: u32::MAX - 1, pad: true });
        c.decoding.push(Decoding::Collapse { character: ' ' });
        c.decoding.push(Decoding::Replace { pattern: DecodingReplacePattern::Regex(Regex::new(" +").unwrap()), replacement: " ".into() });
    }
    if rng.chance(1, 3) {
        c.processing.push(Processing::Pad { id: u32::MAX - 1, length: 3, stride: 2, direction: ProcessingDirection::Left });
        c.processing.push(Processing::Truncate { length: 100, stride: 0, direction: ProcessingDirection::Right });
    }
    for pos in [
        InsertionPosition::WordStart,
        InsertionPosition::SequenceStart,
        InsertionPosition::SequenceContinuation,
        InsertionPosition::SequenceEnd,
        InsertionPosition::SubSequenceStart,
        InsertionPosition::SubSequenceContinuation,
        InsertionPosition::SubSequenceEnd,
    ] {
        if rng.chance(1, 4) {
            c.templates.push(Template { content: "<é>".into(), position: pos });
        }
    }
    // a fallback named twice in a row (the chain continues down the list; the list is part of the definition)
    if rng.chance(1, 4) && !c.fallback.is_empty() {
        let first = c.fallback[0];
        c.fallback.insert(0, first);
    }
    def.meta.meta.push(("ключ".into(), "値 😀".into()));
    def.meta.source = "généré".into();
    // written by another version of the library than the running one: the export keeps what the definition says
    if rng.chance(2, 3) {
        def.meta.version = rng.pick(&["0.0.0", "0.9.0", "99.1.0-β", ""]).to_string();
    }
    // extreme scores on specials and unigram entries
    let extremes = [0.0f32, -0.0, f32::MIN_POSITIVE / 2.0, f32::INFINITY, f32::NEG_INFINITY, 1e-40, -3.5];
    for s in def.specials.iter_mut() {
        if rng.chance(1, 3) {
            s.score = *rng.pick(&extremes);
            s.ident = Some("идент".into());
        }
    }
    // pairs of specials of one kind whose scores are equal as numbers but differ in bits (+0.0 / -0.0),
    // in both id orders: the order must then be decided by the id, not by the sign bit
    if rng.chance(1, 2) {
        let zero_first = rng.chance(1, 2);
        let base = 9_100_000 + rng.below(1000) as u32 * 2;
        let kind = if rng.chance(1, 2) { SpecialTokenKind::Control } else { SpecialTokenKind::Priority };
        for (k, text) in ["<z>", "<z>y"].iter().enumerate() {
            if def.specials.iter().any(|s| s.bytes == text.as_bytes()) {
                continue;
            }
            let plus = (k == 0) == zero_first;
            def.specials.push(SpecialToken {
                id: base + k as u32,
                bytes: text.as_bytes().to_vec(),
                kind,
                ident: None,
                score: if plus { 0.0 } else { -0.0 },
                extract: false,
            });
        }
    }
    if let Model::Unigram { scores, .. } = &mut def.model {
        for s in scores.iter_mut() {
            if rng.chance(1, 10) {
                *s = *rng.pick(&[f32::NEG_INFINITY, -0.0, -1e-40]);
            }
        }
    }
}

pub fn gen(rng: &mut Rng, thorough: bool, out: &mut Sink) {
    // ---- shipped models: every loadable file, converted if foreign, then serialized
    for (name, path) in shipped_models() {
        let def = match Definition::from_file(&path) {
            Ok(d) => d,
            Err(_) => continue,
        };
        let bytes = def.to_vec();
        out.push(deser_line(&bytes));
        // the list-based export model sorts with a linear-time rank lookup per comparison: only small
        // vocabularies go through the model, the large ones are judged by IMPLEQ below
        if def.model.vocab().len() <= 3000 {
            out.push(todef_line(&bytes));
        }
        // behaviour equality: tokenizer rebuilt from the serialized form and from its own export
        let same = guarded(|| {
            let t1 = Kitoken::from_definition(def.clone()).ok()?;
            let t2 = Kitoken::from_slice(&bytes).ok()?;
            let t3 = Kitoken::from_definition(t1.to_definition()).ok()?;
            let back = Definition::from_slice(&bytes).ok()?;
            if !defs_identical(&def, &back) {
                return Some(false);
            }
            for _ in 0..(if thorough { 300 } else { 30 }) {
                let text = random_text(rng, 6);
                let a = t1.encode(&text, true).ok();
                if a != t2.encode(&text, true).ok() || a != t3.encode(&text, true).ok() {
                    return Some(false);
                }
                if let Some(ids) = a {
                    let d1 = t1.decode(&ids, true).ok();
                    if d1 != t2.decode(&ids, true).ok() || d1 != t3.decode(&ids, true).ok() {
                        return Some(false);
                    }
                }
            }
            Some(true)
        });
        out.push(format!(
            "IMPLEQ roundtrip {} :: {}",
            name,
            match same {
                Some(Some(true)) => "OK",
                Some(Some(false)) => "DIFF",
                Some(None) => "ERR",
                None => "PANIC",
            }
        ));
        out.count("shipped_models");
    }
    // ---- generated definitions covering every variant
    let n = if thorough { 5000 } else { 300 };
    for k in 0..n {
        let mut def = gen_full_definition(rng, false, k % 3 == 0);
        spice(rng, &mut def);
        // Unigram: infinite and extreme scores survive the export bit for bit
        if let Model::Unigram { scores, .. } = &mut def.model {
            if rng.chance(1, 2) {
                for sc in scores.iter_mut() {
                    if rng.chance(1, 4) {
                        // NaN: serializes and reads back bit for bit, and is rejected when a tokenizer is built (F27)
                        *sc = *rng.pick(&[f32::NEG_INFINITY, f32::INFINITY, f32::MIN, f32::MAX, -0.0, f32::MIN_POSITIVE, -1.0e-45, f32::NAN]);
                    }
                }
            }
        }
        // WordPiece: a vocabulary entry that is exactly the continuation prefix
        if let Model::WordPiece { vocab, .. } = &mut def.model {
            let prefix = def.config.templates.iter().find(|t| t.position == InsertionPosition::WordContinuation).map(|t| t.content.clone());
            if let Some(p) = prefix.clone() {
                if !p.is_empty() && rng.chance(1, 2) && !vocab.iter().any(|t| t.bytes == p.as_bytes()) {
                    let id = vocab.iter().map(|t| t.id).max().unwrap_or(0).wrapping_add(1);
                    vocab.push(Token { id, bytes: p.clone().into_bytes() });
                }
            }
            // two entries sharing one id (aliases), a word-initial one and a continuation one whose byte order runs
            // against the order start-entries-then-continuations: the export orders by id, then bytes (seed C14o)
            if rng.chance(1, 2) {
                let p = prefix.unwrap_or_default();
                let id = vocab.iter().map(|t| t.id).max().unwrap_or(0).wrapping_add(1);
                let (start, cont): (&[u8], &[u8]) = if rng.chance(1, 2) { (b"~zq", b"!zq") } else { (b"!zq", b"~zq") };
                let mut cbytes = p.into_bytes();
                cbytes.extend_from_slice(cont);
                if id != u32::MAX && !vocab.iter().any(|t| t.bytes == start || t.bytes == cbytes) {
                    vocab.push(Token { id, bytes: start.to_vec() });
                    vocab.push(Token { id, bytes: cbytes });
                }
            }
        }
        // specials NOT listed in the order `Ord` would give them: look-alikes of different kinds whose scores run
        // against their kinds, a second unknown-kind special, a shuffled list. The listed order is the split
        // priority (and decides which unknown special the encoder uses); a rebuilt tokenizer must keep it.
        if rng.chance(1, 2) && !def.specials.iter().any(|s| s.bytes.starts_with(b"<n>")) {
            let ext = rng.chance(1, 2);
            let pri = SpecialToken { id: 9_300_000, bytes: b"<n>".to_vec(), kind: SpecialTokenKind::Priority, ident: None, score: 0.0, extract: ext };
            let ctl = SpecialToken { id: 9_300_001, bytes: b"<n>x".to_vec(), kind: SpecialTokenKind::Control, ident: None, score: 1.0, extract: ext };
            if rng.chance(1, 2) {
                def.specials.push(pri);
                def.specials.push(ctl);
            } else {
                def.specials.push(ctl);
                def.specials.push(pri);
            }
        }
        if rng.chance(1, 5) && !def.specials.iter().any(|s| s.bytes == b"<unk2>") {
            let at = rng.below(def.specials.len() + 1);
            def.specials.insert(at, SpecialToken { id: 9_300_002, bytes: b"<unk2>".to_vec(), kind: SpecialTokenKind::Unknown, ident: None, score: -1.0, extract: false });
        }
        if rng.chance(1, 3) {
            crate::gen::shuffle(rng, &mut def.specials);
        }
        let bytes = def.to_vec();
        // behaviour: the tokenizer rebuilt from the serialized form and the one rebuilt from its own export encode
        // and decode like the original, on texts that contain the specials' texts (nested ones included)
        {
            let mut texts: Vec<String> = (0..8).map(|_| crate::enc::text_for_pub(rng, &def)).collect();
            texts.push("a<n>xb <n> <n><n>x".to_string());
            texts.push("語<unk2>語 q".to_string());
            // the serialization variants carry padding amounts near u32::MAX: decoding would build gigabytes
            let huge_decode = def.config.decoding.iter().any(|d| matches!(d, Decoding::Extend { left, right, .. } if *left > 1000 || *right > 1000));
            let alike = guarded(|| {
                let t1 = Kitoken::from_definition(def.clone()).ok()?;
                let t2 = Kitoken::from_slice(&bytes).ok()?;
                let t3 = Kitoken::from_definition(t1.to_definition()).ok()?;
                for text in &texts {
                    for s in [false, true] {
                        let a = t1.encode(text, s).ok();
                        if a != t2.encode(text, s).ok() {
                            return Some(Err(format!("serialized form differs on {} specials={}", hex(text.as_bytes()), s)));
                        }
                        if a != t3.encode(text, s).ok() {
                            return Some(Err(format!("exported definition differs on {} specials={}", hex(text.as_bytes()), s)));
                        }
                        if let Some(ids) = a.filter(|_| !huge_decode) {
                            let d1 = t1.decode(&ids, s).ok();
                            if d1 != t2.decode(&ids, s).ok() || d1 != t3.decode(&ids, s).ok() {
                                return Some(Err(format!("decoding differs on {} specials={}", hex(text.as_bytes()), s)));
                            }
                        }
                    }
                }
                Some(Ok(()))
            });
            match alike {
                Some(Some(Ok(()))) => {
                    out.push(format!("IMPLEQ rebuilt-behaves-alike gen{} :: OK", k));
                    out.count("rebuilt_tokenizers_compared");
                }
                Some(Some(Err(why))) => {
                    // F28 (known finding): a vocabulary that lists one id twice decodes that id to whichever entry is
                    // listed last, and the export re-orders the entries. Labelled apart so that the finding is matched by
                    // exactly this shape (decoding, id listed twice) and every other difference is still a violation.
                    let mut ids: Vec<u32> = def.model.vocab().iter().map(|t| t.id).collect();
                    ids.sort_unstable();
                    let twice = ids.windows(2).any(|w| w[0] == w[1]);
                    let label = if twice && why.starts_with("decoding differs") { "rebuilt-behaves-alike-id-listed-twice-decoding" } else { "rebuilt-behaves-alike" };
                    out.push(format!("IMPLEQ {} gen{} {} :: DIFF {}", label, k, hex(&bytes), why))
                }
                Some(None) => out.count("rebuilt_defs_failed_init"),
                None => out.push(format!("IMPLEQ rebuilt-behaves-alike gen{} {} :: PANIC", k, hex(&bytes))),
            }
        }
        // the export keeps every entry: compared with the definition the tokenizer was built from, as sets
        // (independent of the order the export chooses)
        let kept = guarded(|| {
            let t = Kitoken::from_definition(def.clone()).ok()?;
            let e = t.to_definition();
            let key = |d: &Definition| {
                let mut v: Vec<(u32, Vec<u8>)> = d.model.vocab().iter().map(|t| (t.id, t.bytes.clone())).collect();
                v.sort();
                let mut s: Vec<(u32, Vec<u8>, String, Option<String>, u32, bool)> =
                    d.specials.iter().map(|s| (s.id, s.bytes.clone(), format!("{:?}", s.kind), s.ident.clone(), s.score.to_bits(), s.extract)).collect();
                s.sort();
                // unigram scores by token id, bit for bit
                let mut sc: Vec<(u32, u32)> = match &d.model {
                    Model::Unigram { vocab, scores } => vocab.iter().zip(scores.iter()).map(|(t, x)| (t.id, x.to_bits())).collect(),
                    _ => Vec::new(),
                };
                sc.sort();
                // the parameters of the model kind (character mode, word length limit) belong to the definition too
                let params = match &d.model {
                    Model::BytePair { chars, .. } => format!("bpe chars={}", chars),
                    Model::Unigram { .. } => "unigram".to_string(),
                    Model::WordPiece { max_word_chars, .. } => format!("wordpiece max_word_chars={}", max_word_chars),
                    _ => "other".to_string(),
                };
                (v, s, format!("{:?}", d.config), sc, params, (d.meta.version.clone(), d.meta.source.clone(), d.meta.meta.clone()))
            };
            Some(key(&def) == key(&e))
        });
        match kept {
            Some(Some(ok)) => {
                out.push(format!("IMPLEQ export-keeps-entries gen{} :: {}", k, if ok { "OK" } else { "DIFF the exported definition does not have the entries, specials and configuration of the definition the tokenizer was built from" }));
                out.count("export_keeps_entries");
            }
            Some(None) => out.count("export_defs_failed_init"),
            None => out.push(format!("IMPLEQ export-keeps-entries gen{} :: PANIC", k)),
        }
        out.push(deser_line(&bytes));
        // TODEF only where the export is deterministic: canonical order is what to_definition itself produces
        let canonical = guarded(|| Kitoken::from_definition(def.clone()).ok().map(|t| t.to_definition()));
        if let Some(Some(mut canon)) = canonical {
            // specials in the documented order, sorted here independently of the library's `Ord`:
            // kind, then score as a number (so -0.0 = +0.0, NaN incomparable = equal), then id, then bytes
            canon.specials.sort_by(|a, b| {
                let kind = |k: &SpecialTokenKind| match k {
                    SpecialTokenKind::Unknown => 0u8,
                    SpecialTokenKind::Control => 1,
                    SpecialTokenKind::Priority => 2,
                };
                kind(&a.kind)
                    .cmp(&kind(&b.kind))
                    .then_with(|| {
                        if a.score < b.score {
                            std::cmp::Ordering::Less
                        } else if a.score > b.score {
                            std::cmp::Ordering::Greater
                        } else {
                            std::cmp::Ordering::Equal
                        }
                    })
                    .then_with(|| a.id.cmp(&b.id))
                    .then_with(|| a.bytes.cmp(&b.bytes))
            });
            let cbytes = canon.to_vec();
            out.push(todef_line(&cbytes));
            // exporting a canonical definition returns it
            let again = guarded(|| Kitoken::from_definition(canon.clone()).ok().map(|t| t.to_definition()));
            let ok = matches!(&again, Some(Some(d2)) if defs_identical(&canon, d2) && d2.to_vec() == cbytes);
            out.push(format!("IMPLEQ export-canonical gen{} :: {}", k, if ok { "OK" } else { "DIFF" }));
            out.count("canonical_exports");
        }
        let back = guarded(|| Definition::from_slice(&bytes).ok());
        let ok = matches!(&back, Some(Some(d2)) if defs_identical(&def, d2) && d2.to_vec() == bytes);
        out.push(format!("IMPLEQ fields gen{} :: {}", k, if ok { "OK" } else { "DIFF" }));
    }
}

pub fn run_request(words: &[&str]) -> Option<(String, String)> {
    let args: Vec<&str> = words.iter().copied().filter(|x| !x.starts_with("ORA:")).collect();
    let bytes = unhex(args.get(1)?);
    let l = match args[0] {
        "DESER" => deser_line(&bytes),
        "TODEF" => todef_line(&bytes),
        _ => return None,
    };
    let mut it = l.splitn(2, " :: ");
    Some((it.next()?.to_string(), it.next()?.to_string()))
}
