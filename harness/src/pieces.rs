//! Piece-level correspondence (C03 BPE, C04 Unigram, C05 WordPiece, C06 fallback chain): the encoder
//! alone on one pre-tokenized piece, through a tokenizer without normalization, split and specials
//! other than the unknown token.
use crate::defs::*;
use crate::gen::*;
use crate::rng::Rng;
use crate::sink::Sink;
use kitoken::*;

fn op_for(kind: Kind) -> &'static str {
    match kind {
        Kind::BpeBytes | Kind::BpeChars => "BPE",
        Kind::Unigram => "UNI",
        Kind::WordPiece => "WP",
    }
}

/// Strips a definition down to the encoder: no normalization, split, processing, decoding; specials
/// reduced to the unknown token (not extracted).
pub fn strip(def: &Definition) -> Definition {
    let mut d = def.clone();
    d.config.normalization.clear();
    d.config.split.clear();
    d.config.processing.clear();
    d.config.decoding.clear();
    d.specials.retain(|s| s.kind == SpecialTokenKind::Unknown);
    for s in d.specials.iter_mut() {
        s.extract = false;
        // make sure no piece text contains the unknown token's text
        s.bytes = b"\x01<unk>\x01".to_vec();
    }
    d
}

fn piece_lines(tk: &Tk, op: &str, pieces: &[String], lines: &mut Vec<String>, out: &mut Sink) {
    for p in pieces {
        if let Some(l) = enc_line(op, tk, p, false) {
            if l.contains(":: ERR") {
                out.count("answers_err");
            } else if l.contains(":: PANIC") {
                out.count("answers_panic");
            }
            lines.push(l);
        }
    }
}

fn pad_long(alphabet_inert: char, s: &str, n: usize) -> String {
    let mut t: String = std::iter::repeat(alphabet_inert).take(n).collect();
    t.push_str(s);
    t
}

/// All ordered choices of up to `k` merged tokens over the single letters of `alphabet`
/// (each merge concatenates two tokens present so far).
fn merge_sequences(alphabet: &[char], k: usize) -> Vec<Vec<String>> {
    let base: Vec<String> = alphabet.iter().map(|c| c.to_string()).collect();
    let mut out: Vec<Vec<String>> = vec![vec![]];
    let mut cur: Vec<Vec<String>> = vec![vec![]];
    for _ in 0..k {
        let mut next = Vec::new();
        for seq in &cur {
            let mut have = base.clone();
            have.extend(seq.iter().cloned());
            for a in &have {
                for b in &have {
                    let t = format!("{}{}", a, b);
                    if !have.contains(&t) {
                        let mut s = seq.clone();
                        s.push(t);
                        next.push(s);
                    }
                }
            }
        }
        out.extend(next.iter().cloned());
        cur = next;
    }
    out
}

fn bpe_def_from(tokens: &[String], chars: bool, eow: Option<&str>, fallback: Vec<Fallback>, unknown: bool) -> Definition {
    // ids deliberately do NOT follow the rank order (rank = position): reversed, so that any confusion
    // of token ids with merge ranks shows
    let n = tokens.len() as u32;
    let vocab: Vocab = tokens.iter().enumerate().map(|(i, t)| Token { id: 10 + (n - 1 - i as u32) * 3, bytes: t.as_bytes().to_vec() }).collect();
    let mut config = Configuration::default();
    config.fallback = fallback;
    if let Some(e) = eow {
        config.templates.push(Template { content: e.to_string(), position: InsertionPosition::WordEnd });
    }
    let mut specials = Vec::new();
    if unknown {
        specials.push(SpecialToken {
            id: 5_000_000,
            bytes: b"\x01<unk>\x01".to_vec(),
            kind: SpecialTokenKind::Unknown,
            ident: None,
            score: 0.0,
            extract: false,
        });
    }
    Definition { meta: Metadata::default(), model: Model::BytePair { vocab, chars }, specials, config }
}

fn c03_exhaustive(thorough: bool, out: &mut Sink, slot: &mut usize) {
    let alphabet = ['a', 'b', 'c'];
    let kmax = if thorough { 3 } else { 2 };
    let lmax = if thorough { 7 } else { 5 };
    let strings_long: Vec<String> = all_strings(&alphabet, lmax).into_iter().filter(|s| !s.is_empty()).collect();
    let strings_short: Vec<String> = strings_long.iter().filter(|s| s.len() <= 5).cloned().collect();
    let seqs = merge_sequences(&alphabet, kmax);
    let mut nv = 0;
    for (si, seq) in seqs.iter().enumerate() {
        // thorough: every sequence of up to two merges with the long strings, every 8th sequence of three merges
        // with strings up to length 5 (3244 sequences x 6558 pieces would be 4 * 10^7 cases)
        if seq.len() == 3 && si % 8 != 0 {
            continue;
        }
        let strings = if seq.len() == 3 { &strings_short } else { &strings_long };
        let lmax = if seq.len() == 3 { 5 } else { lmax };
        // thorough: every sequence; quick: every sequence of <= 2 merges
        let mut tokens: Vec<String> = vec!["a".into(), "b".into(), "c".into(), "z".into()];
        // merges first in rank order = merge priority, then the letters (rank of letters is irrelevant)
        let mut ranked: Vec<String> = seq.clone();
        ranked.extend(tokens.drain(..));
        for chars in [false, true] {
            if !thorough && chars && si % 3 != 0 {
                continue;
            }
            let def = bpe_def_from(&ranked, chars, None, vec![], false);
            let mut lines = Vec::new();
            let tk = load(*slot, "c03-exhaustive", def, &mut lines);
            *slot += 1;
            nv += 1;
            let mut pieces = Vec::with_capacity(strings.len() * 2);
            for s in strings.iter() {
                pieces.push(s.clone());
                // the same string behind more than 192 inert units forces the long-piece strategy
                if thorough || s.len() >= lmax - 1 {
                    pieces.push(pad_long('z', s, 193));
                }
            }
            piece_lines(&tk, "BPE", &pieces, &mut lines, out);
            out.group(lines);
        }
    }
    out.add("c03_exhaustive_vocabularies", nv);
    out.exhaustive.push(format!(
        "BPE: every ordered choice of up to {} merges over {{a,b,c}} x all strings of length 1..{} (long-padded copies: {}); thorough adds every 8th choice of 3 merges x strings up to length 5",
        kmax.min(2),
        lmax,
        if thorough { "all" } else { "lengths >= 4" }
    ));
}

/// Vocabularies that are NOT closed under merging: entries that no sequence of lowest-rank-first merges
/// rebuilds (the whole-piece shortcut is the only way to get them), with every entry itself — in
/// particular the longest one — as a piece, alone, doubled, behind a long inert run and with an
/// end-of-word suffix.
fn c03_orphans(rng: &mut Rng, thorough: bool, out: &mut Sink, slot: &mut usize) {
    let n = if thorough { 3000 } else { 300 };
    let pool: Vec<String> = all_strings(&['a', 'b', 'c'], 7).into_iter().filter(|s| s.chars().count() >= 2).collect();
    for v in 0..n {
        let k = rng.range(1, 4);
        let mut ranked: Vec<String> = Vec::new();
        for _ in 0..k {
            let t = if rng.chance(1, 3) { std::iter::repeat('a').take(rng.range(2, 7)).collect() } else { rng.pick(&pool).clone() };
            if !ranked.contains(&t) {
                ranked.push(t);
            }
        }
        let eow = if v % 4 == 3 { Some("</w>") } else { None };
        let mut tokens = ranked.clone();
        if let Some(e) = eow {
            // suffixed copies of some entries, so that "entry + suffix" is itself an entry of maximal length
            for t in ranked.iter().take(2) {
                tokens.push(format!("{}{}", t, e));
            }
            for l in ["a", "b", "c", "z"] {
                tokens.push(format!("{}{}", l, e));
            }
        }
        tokens.extend(["a", "b", "c", "z"].iter().map(|x| x.to_string()));
        let def = bpe_def_from(&tokens, v % 2 == 1, eow, vec![], false);
        let mut lines = Vec::new();
        let tk = load(*slot, "c03-orphans", def, &mut lines);
        *slot += 1;
        let mut pieces: Vec<String> = Vec::new();
        for t in &ranked {
            pieces.push(t.clone());
            pieces.push(format!("{}{}", t, t));
            pieces.push(pad_long('z', t, 193));
            pieces.push(format!("a{}", t));
        }
        for _ in 0..8 {
            pieces.push(random_string(rng, &['a', 'b', 'c'], 9));
        }
        pieces.retain(|p| !p.is_empty());
        piece_lines(&tk, "BPE", &pieces, &mut lines, out);
        out.group(lines);
        out.count("c03_orphan_vocabularies");
    }
}

fn random_piece(rng: &mut Rng, alphabet: &[char], long: bool) -> String {
    let n = if long { rng.range(150, 600) } else { rng.range(1, 24) };
    // biased towards repeats so that merges apply
    let mut s = String::new();
    let mut last = *rng.pick(alphabet);
    for _ in 0..n {
        if !rng.chance(1, 3) {
            last = *rng.pick(alphabet);
        }
        s.push(last);
    }
    s
}

fn random_defs(prop: &str, rng: &mut Rng, thorough: bool, out: &mut Sink, slot: &mut usize) {
    let ndefs = if thorough { 1500 } else { 150 };
    let npieces = if thorough { 120 } else { 50 };
    let fallbacks = all_fallback_lists(3);
    for d in 0..ndefs {
        let kind = match prop {
            "C03" => *rng.pick(&[Kind::BpeBytes, Kind::BpeChars]),
            "C04" => Kind::Unigram,
            "C05" => Kind::WordPiece,
            _ => *rng.pick(&[Kind::BpeBytes, Kind::BpeChars, Kind::Unigram, Kind::WordPiece]),
        };
        let mut alphabet: Vec<char> = rng.pick(ALPHABETS).to_vec();
        alphabet.retain(|c| *c != ' ');
        let holes = match prop {
            "C06" => rng.range(1, 4),
            "C03" => 0,
            _ => {
                if rng.chance(1, 3) {
                    1
                } else {
                    0
                }
            }
        };
        let eow = if matches!(kind, Kind::BpeBytes | Kind::BpeChars) && rng.chance(1, 2) {
            Some(rng.pick(&["</w>", "é", "_"]).to_string())
        } else {
            None
        };
        let prefix = if kind == Kind::WordPiece { Some(rng.pick(&["##", "@@", "▁", "é"]).to_string()) } else { None };
        let fallback = if prop == "C06" || rng.chance(1, 2) {
            fallbacks[(d + rng.below(3)) % fallbacks.len()].clone()
        } else {
            vec![Fallback::Unknown, Fallback::Skip]
        };
        let spec = DefSpec {
            kind,
            alphabet: alphabet.clone(),
            holes,
            all_bytes: prop == "C06" && rng.chance(1, 4),
            merges: if d % 3 == 0 { rng.range(0, 4) } else { rng.range(0, 30) },
            eow: eow.clone(),
            prefix: prefix.clone(),
            fallback,
            unknown: rng.chance(2, 3),
            max_word_chars: if kind == Kind::WordPiece && rng.chance(1, 2) { rng.range(0, 6) as u32 } else { 0 },
            ties: rng.chance(1, 2),
        };
        let mut def = gen_definition(rng, &spec);
        // WordPiece: sometimes an entry that equals the prefix itself
        if let (Kind::WordPiece, Some(p)) = (kind, &prefix) {
            if rng.chance(1, 3) {
                let id = 77_000_000;
                def.model.vocab_mut().push(Token { id, bytes: p.as_bytes().to_vec() });
            }
        }
        let mut def = strip(&def);
        // hand-built definitions need not list their specials in the canonical order: the unknown token
        // is whichever special has the unknown kind, wherever it stands
        if rng.chance(1, 3) {
            let ctl = SpecialToken { id: 6_000_000, bytes: b"\x01<ctl>\x01".to_vec(), kind: SpecialTokenKind::Control, ident: None, score: 0.0, extract: false };
            let pri = SpecialToken { id: 6_000_001, bytes: b"\x01<pri>\x01".to_vec(), kind: SpecialTokenKind::Priority, ident: None, score: 0.0, extract: false };
            def.specials.insert(0, ctl);
            if rng.chance(1, 2) {
                def.specials.insert(0, pri);
            }
            out.count("defs_unknown_special_not_first");
        }
        let mut lines = Vec::new();
        let tk = load(*slot, "generated", def, &mut lines);
        *slot += 1;
        if tk.tok.is_none() {
            out.count("defs_failed_init");
            out.group(lines);
            continue;
        }
        out.count(&format!("defs_{:?}", kind));
        if eow.is_some() {
            out.count("defs_with_suffix");
        }
        let mut pieces = Vec::new();
        let mut text_alphabet = alphabet.clone();
        if holes == 0 && prop == "C06" {
            text_alphabet.push('q');
        }
        if prop != "C03" {
            text_alphabet.push('q'); // a character the vocabulary never has
        }
        for k in 0..npieces {
            let long = k % 10 == 9;
            let mut p = random_piece(rng, &text_alphabet, long);
            if let (Kind::WordPiece, Some(pre)) = (kind, &prefix) {
                if rng.chance(1, 8) {
                    p = format!("{}{}", pre, p);
                }
            }
            pieces.push(p);
        }
        out.add("pieces_long", (npieces / 10) as u64);
        piece_lines(&tk, op_for(kind), &pieces, &mut lines, out);
        out.group(lines);
        // C05: "each word" — several words in one call (failing and encodable ones next to each other), split at
        // spaces: what one word yields does not depend on what the word before it yielded
        if prop == "C05" && kind == Kind::WordPiece && d % 3 == 0 {
            let mut def2 = tk.def.clone();
            def2.config.split = vec![Split::Pattern { pattern: ' '.into(), behavior: SplitBehavior::Remove }];
            let mut lines2 = Vec::new();
            let tk2 = load(*slot, "generated-words", def2, &mut lines2);
            *slot += 1;
            if tk2.tok.is_some() {
                let short: Vec<&String> = pieces.iter().filter(|p| p.len() <= 12 && !p.contains(' ')).collect();
                for _ in 0..12 {
                    if short.is_empty() {
                        break;
                    }
                    let n = rng.range(2, 4);
                    let mut words: Vec<String> = (0..n).map(|_| (*rng.pick(&short)).clone()).collect();
                    if rng.chance(1, 2) {
                        // a word that certainly fails, twice in a row
                        words.insert(rng.below(words.len() + 1), "qq".to_string());
                        words.insert(rng.below(words.len() + 1), "q".to_string());
                    }
                    if let Some(l) = enc_line("ENC2", &tk2, &words.join(" "), false) {
                        lines2.push(l);
                    }
                    out.count("word_sequences");
                }
            }
            out.group(lines2);
        }
    }
}

fn exhaustive_words(prop: &str, rng: &mut Rng, thorough: bool, out: &mut Sink, slot: &mut usize) {
    // C04 / C05: exhaustive pieces up to length 8 (thorough) / 5 (quick) over small alphabets, several vocabularies
    let lmax = if thorough { 8 } else { 5 };
    let nvoc = if thorough { 80 } else { 16 };
    for v in 0..nvoc {
        let alphabet: Vec<char> = match v % 4 {
            0 => vec!['a', 'b'],
            1 => vec!['a', 'é', '語'],
            2 => vec!['é', '語'],
            _ => vec!['😀', 'ß'],
        };
        let lm = if alphabet.len() == 3 { lmax.min(6) } else { lmax };
        let kind = if prop == "C04" { Kind::Unigram } else { Kind::WordPiece };
        let spec = DefSpec {
            kind,
            alphabet: alphabet.clone(),
            holes: if v % 4 == 3 { 2 } else { 0 },
            all_bytes: false,
            merges: if v % 4 >= 2 { rng.range(1, 4) } else { rng.range(2, 14) },
            eow: None,
            prefix: if kind == Kind::WordPiece { Some(rng.pick(&["##", "@@", "é"]).to_string()) } else { None },
            fallback: vec![Fallback::Unknown],
            unknown: true,
            max_word_chars: if kind == Kind::WordPiece && v % 3 == 0 { rng.range(1, 5) as u32 } else { 0 },
            ties: v % 2 == 0,
        };
        let def = strip(&gen_definition(rng, &spec));
        let mut lines = Vec::new();
        let tk = load(*slot, "exhaustive", def, &mut lines);
        *slot += 1;
        let pieces: Vec<String> = all_strings(&alphabet, lm).into_iter().filter(|s| !s.is_empty()).collect();
        piece_lines(&tk, op_for(kind), &pieces, &mut lines, out);
        out.group(lines);
    }
    out.exhaustive.push(format!("{}: all pieces up to length {} over {{a,b}} (and up to {} over {{a,é,語}}) x {} generated vocabularies", prop, lmax, lmax.min(6), nvoc));
}

/// C04: vocabularies that are NOT built from their single characters — random sets of strings, so that
/// entries span positions where no entry ends ("a", "c", "abc" without "b", "ab", "bc") — with every
/// piece up to a small length. An unknown id may only stand where no segmentation covers the character.
fn c04_sparse(rng: &mut Rng, thorough: bool, out: &mut Sink, slot: &mut usize) {
    let nvoc = if thorough { 600 } else { 60 };
    for v in 0..nvoc {
        let alphabet: Vec<char> = match v % 3 {
            0 => vec!['a', 'b', 'c'],
            1 => vec!['a', 'é'],
            _ => vec!['a', 'b'],
        };
        let pool: Vec<String> = all_strings(&alphabet, 4).into_iter().filter(|s| !s.is_empty()).collect();
        let k = rng.range(2, 7);
        let mut toks: Vec<String> = Vec::new();
        for _ in 0..k {
            let t = rng.pick(&pool).clone();
            if !toks.contains(&t) {
                toks.push(t);
            }
        }
        let mut vocab: Vocab = toks.iter().enumerate().map(|(i, t)| Token { id: 20 + i as u32 * 2, bytes: t.as_bytes().to_vec() }).collect();
        // byte fallback for the two-byte character: its bytes as entries of their own (no text is a single such byte)
        let byte_fallback = v % 3 == 1 && v % 2 == 1;
        if byte_fallback {
            vocab.push(Token { id: 900, bytes: vec![0xC3] });
            vocab.push(Token { id: 901, bytes: vec![0xA9] });
        }
        let toks_n = vocab.len();
        let scores: Scores = (0..toks_n).map(|_| if v % 4 == 2 { -(rng.range(0, 3) as f32) - (rng.range(0, 4) as f32) / 1024.0 } else if v % 2 == 0 { -(rng.range(0, 3) as f32) } else { -(rng.range(1, 4000) as f32) / 256.0 }).collect();
        let mut config = Configuration::default();
        config.fallback = if byte_fallback { vec![Fallback::Bytes, Fallback::Unknown] } else if v % 5 == 4 { vec![] } else { vec![Fallback::Unknown] };
        let specials = vec![SpecialToken { id: 5_000_000, bytes: b"\x01<unk>\x01".to_vec(), kind: SpecialTokenKind::Unknown, ident: None, score: 0.0, extract: false }];
        let def = Definition { meta: Metadata::default(), model: Model::Unigram { vocab, scores }, specials, config };
        let mut lines = Vec::new();
        let tk = load(*slot, "c04-sparse", def, &mut lines);
        *slot += 1;
        let lm = if alphabet.len() == 3 { 5 } else { 7 };
        let pieces: Vec<String> = all_strings(&alphabet, lm).into_iter().filter(|s| !s.is_empty()).collect();
        piece_lines(&tk, "UNI", &pieces, &mut lines, out);
        out.group(lines);
        out.count("c04_sparse_vocabularies");
    }
}

fn shipped(prop: &str, rng: &mut Rng, thorough: bool, out: &mut Sink, slot: &mut usize) {
    let want: &[&str] = match prop {
        "C04" => &["xlnet", "nai-t5"],
        "C05" => &["bert", "gte"],
        "C03" => &["cl100k", "gpt2.json", "llama2.kit", "clip"],
        _ => &[],
    };
    let n = if thorough { 4000 } else { 300 };
    let corpus = std::fs::read_to_string("/repo/tests/data/mixed_input.txt").unwrap_or_default()
        + &std::fs::read_to_string("/repo/tests/data/utf8_input.txt").unwrap_or_default();
    let words: Vec<&str> = corpus.split_whitespace().filter(|w| w.len() < 80).collect();
    for (name, path) in shipped_models() {
        if !want.iter().any(|w| name.contains(w)) {
            continue;
        }
        let def = match Definition::from_file(&path) {
            Ok(d) => d,
            Err(_) => continue,
        };
        let kind = match &def.model {
            Model::BytePair { chars, .. } => {
                if *chars {
                    Kind::BpeChars
                } else {
                    Kind::BpeBytes
                }
            }
            Model::Unigram { .. } => Kind::Unigram,
            _ => Kind::WordPiece,
        };
        let sp = matches!(kind, Kind::Unigram | Kind::BpeChars) && def.config.normalization.iter().any(|n| format!("{:?}", n).contains('▁'));
        let def = strip(&def);
        let mut lines = Vec::new();
        let tk = load(*slot, &name, def, &mut lines);
        *slot += 1;
        let mut pieces = Vec::new();
        for _ in 0..n {
            let w = if words.is_empty() { "hello".to_string() } else { rng.pick(&words).to_string() };
            let mut p = if sp { format!("▁{}", w) } else { w };
            if rng.chance(1, 20) {
                p.push(random_scalar(rng));
            }
            if rng.chance(1, 40) {
                p = p.repeat(40);
            }
            pieces.push(p);
        }
        out.count("shipped_models");
        piece_lines(&tk, op_for(kind), &pieces, &mut lines, out);
        out.group(lines);
    }
}

/// C06: end-of-word suffix x byte fallback, with byte-level tokens (some carrying the suffix) present
/// or missing, and pieces with several unencodable characters incl. the last one.
fn c06_suffix_bytes(rng: &mut Rng, thorough: bool, out: &mut Sink, slot: &mut usize) {
    let ndefs = if thorough { 600 } else { 60 };
    let tails: [&[Fallback]; 5] = [&[], &[Fallback::Skip], &[Fallback::Unknown], &[Fallback::Unknown, Fallback::Skip], &[Fallback::Bytes, Fallback::Unknown]];
    for d in 0..ndefs {
        let chars = d % 2 == 0;
        let eow = *rng.pick(&["</w>", "_", "é"]);
        let mut toks: Vec<Vec<u8>> = Vec::new();
        let mut push = |t: Vec<u8>| {
            if !toks.contains(&t) {
                toks.push(t);
            }
        };
        for c in ['a', 'b'] {
            push(c.to_string().into_bytes());
            if rng.chance(2, 3) {
                push(format!("{}{}", c, eow).into_bytes());
            }
        }
        // byte-level tokens for the holes 'é' (c3 a9), 'x', '語' (e8 aa 9e): some present, some with suffix
        for b in [0xc3u8, 0xa9, b'x', 0xe8, 0xaa, 0x9e] {
            if rng.chance(2, 3) {
                push(vec![b]);
            }
            if rng.chance(1, 2) {
                let mut t = vec![b];
                t.extend_from_slice(eow.as_bytes());
                push(t);
            }
        }
        if rng.chance(1, 2) {
            push("ab".as_bytes().to_vec());
        }
        let mut fallback = vec![Fallback::Bytes];
        fallback.extend_from_slice(tails[d % tails.len()]);
        let toks_s: Vec<String> = Vec::new();
        let _ = toks_s;
        let vocab: Vocab = toks.iter().enumerate().map(|(i, t)| Token { id: 10 + i as u32, bytes: t.clone() }).collect();
        let mut config = Configuration::default();
        config.fallback = fallback;
        config.templates.push(Template { content: eow.to_string(), position: InsertionPosition::WordEnd });
        let mut specials = Vec::new();
        if rng.chance(2, 3) {
            specials.push(SpecialToken { id: 5_000_000, bytes: b"\x01<unk>\x01".to_vec(), kind: SpecialTokenKind::Unknown, ident: None, score: 0.0, extract: false });
        }
        let def = Definition { meta: Metadata::default(), model: Model::BytePair { vocab, chars }, specials, config };
        let mut lines = Vec::new();
        let tk = load(*slot, "c06-suffix-bytes", def, &mut lines);
        *slot += 1;
        let mut pieces: Vec<String> = Vec::new();
        for s in all_strings(&['a', 'é', 'x'], 4) {
            if !s.is_empty() {
                pieces.push(s);
            }
        }
        for _ in 0..10 {
            pieces.push(random_piece(rng, &['a', 'b', 'é', 'x', '語'], true));
        }
        out.count("c06_suffix_bytes_defs");
        piece_lines(&tk, "BPE", &pieces, &mut lines, out);
        out.group(lines);
    }
}

pub fn gen(prop: &str, rng: &mut Rng, thorough: bool, out: &mut Sink) {
    let mut slot = 0usize;
    match prop {
        "C03" => {
            c03_exhaustive(thorough, out, &mut slot);
            c03_orphans(rng, thorough, out, &mut slot);
            random_defs(prop, rng, thorough, out, &mut slot);
            shipped(prop, rng, thorough, out, &mut slot);
        }
        "C04" | "C05" => {
            exhaustive_words(prop, rng, thorough, out, &mut slot);
            if prop == "C04" {
                c04_sparse(rng, thorough, out, &mut slot);
            }
            random_defs(prop, rng, thorough, out, &mut slot);
            shipped(prop, rng, thorough, out, &mut slot);
        }
        _ => {
            // C06: every fallback list up to length 3 x kinds x holes x suffix
            random_defs(prop, rng, thorough, out, &mut slot);
            c06_suffix_bytes(rng, thorough, out, &mut slot);
        }
    }
}
