use std::panic::{catch_unwind, AssertUnwindSafe};

pub fn hex(b: &[u8]) -> String {
    if b.is_empty() {
        return "-".into();
    }
    let mut s = String::with_capacity(b.len() * 2);
    for x in b {
        s.push_str(&format!("{:02x}", x));
    }
    s
}
pub fn unhex(s: &str) -> Vec<u8> {
    if s == "-" {
        return Vec::new();
    }
    (0..s.len() / 2).map(|i| u8::from_str_radix(&s[2 * i..2 * i + 2], 16).unwrap()).collect()
}
pub fn ids(v: &[u32]) -> String {
    if v.is_empty() {
        return "-".into();
    }
    v.iter().map(|x| x.to_string()).collect::<Vec<_>>().join(",")
}
pub fn ranges(v: &[(usize, usize)]) -> String {
    if v.is_empty() {
        return "-".into();
    }
    v.iter().map(|(a, b)| format!("{}:{}", a, b)).collect::<Vec<_>>().join(",")
}
pub fn join_or_dash(v: &[String]) -> String {
    if v.is_empty() { "-".into() } else { v.join(",") }
}

/// Runs `f`, mapping a panic to `None`.
pub fn guarded<T>(f: impl FnOnce() -> T) -> Option<T> {
    catch_unwind(AssertUnwindSafe(f)).ok()
}

pub fn silence_panics() {
    std::panic::set_hook(Box::new(|_| {}));
}
