//! C17 — loading arbitrary bytes returns a tokenizer or an error, never a crash.
//! LOADF ops: `Kitoken::from_slice` (auto-detection) and the per-format loaders on mutated / generated
//! files, executed in a child process so that aborts, stack overflows and hangs are observed.
//! INITB ops: native files through the model (`from_slice` + `Kitoken::new`), outcome compared.
use crate::defs::*;
use crate::rng::Rng;
use crate::sink::Sink;
use crate::util::*;
use kitoken::*;
use std::io::{BufRead, BufReader, Write};
use std::process::{Child, Command, Stdio};

/// Runs one load request in-process. `fmt`: auto | kit | tiktoken | tekken | sentencepiece | tokenizers.
pub fn load_outcome(fmt: &str, bytes: &[u8]) -> String {
    let r = guarded(|| -> Result<(), String> {
        match fmt {
            "auto" => Kitoken::from_slice(bytes).map(|_| ()).map_err(|e| format!("{}", e)),
            "tiktoken" => Kitoken::from_tiktoken_slice(bytes).map(|_| ()).map_err(|e| format!("{}", e)),
            "tekken" => Kitoken::from_tekken_slice(bytes).map(|_| ()).map_err(|e| format!("{}", e)),
            "sentencepiece" => Kitoken::from_sentencepiece_slice(bytes).map(|_| ()).map_err(|e| format!("{}", e)),
            "tokenizers" => Kitoken::from_tokenizers_slice(bytes).map(|_| ()).map_err(|e| format!("{}", e)),
            _ => Err("unknown format".into()),
        }
    });
    match r {
        Some(Ok(())) => "OK".into(),
        Some(Err(_)) => "ERR".into(),
        None => "PANIC".into(),
    }
}

/// Child mode: one `fmt hex` request per line on stdin, one outcome per line on stdout.
pub fn child_main() {
    let stdin = std::io::stdin();
    let mut out = std::io::stdout();
    for line in stdin.lock().lines() {
        let line = match line {
            Ok(l) => l,
            Err(_) => break,
        };
        let mut it = line.split(' ');
        let fmt = it.next().unwrap_or("");
        let bytes = unhex(it.next().unwrap_or("-"));
        let a = load_outcome(fmt, &bytes);
        writeln!(out, "{}", a).unwrap();
        out.flush().unwrap();
    }
}

pub struct Isolated {
    child: Option<(Child, BufReader<std::process::ChildStdout>)>,
    pub crashes: u64,
}
impl Isolated {
    pub fn new() -> Self {
        Isolated { child: None, crashes: 0 }
    }
    fn spawn(&mut self) {
        let exe = std::env::current_exe().expect("exe");
        let mut c = Command::new(exe)
            .arg("child-load")
            .stdin(Stdio::piped())
            .stdout(Stdio::piped())
            .stderr(Stdio::null())
            .spawn()
            .expect("spawn child");
        let out = BufReader::new(c.stdout.take().unwrap());
        self.child = Some((c, out));
    }
    /// Outcome of loading `bytes` as `fmt` in the child; `CRASH` if the child died or hung.
    pub fn load(&mut self, fmt: &str, bytes: &[u8]) -> String {
        if self.child.is_none() {
            self.spawn();
        }
        let (c, out) = self.child.as_mut().unwrap();
        let req = format!("{} {}\n", fmt, hex(bytes));
        let ok = c.stdin.as_mut().map(|s| s.write_all(req.as_bytes()).and_then(|_| s.flush()).is_ok()).unwrap_or(false);
        let mut line = String::new();
        let got = if ok {
            // a watchdog thread kills the child if it does not answer within the limit
            let pid = c.id();
            let done = std::sync::Arc::new(std::sync::atomic::AtomicBool::new(false));
            let d2 = done.clone();
            let watchdog = std::thread::spawn(move || {
                for _ in 0..600 {
                    std::thread::sleep(std::time::Duration::from_millis(100));
                    if d2.load(std::sync::atomic::Ordering::SeqCst) {
                        return;
                    }
                }
                let _ = Command::new("kill").arg("-9").arg(pid.to_string()).status();
            });
            let n = out.read_line(&mut line).unwrap_or(0);
            done.store(true, std::sync::atomic::Ordering::SeqCst);
            let _ = watchdog.join();
            n > 0
        } else {
            false
        };
        if got {
            line.trim().to_string()
        } else {
            self.crashes += 1;
            if let Some((mut c, _)) = self.child.take() {
                let _ = c.kill();
                let _ = c.wait();
            }
            "CRASH".into()
        }
    }
}
impl Drop for Isolated {
    fn drop(&mut self) {
        if let Some((mut c, _)) = self.child.take() {
            drop(c.stdin.take());
            let _ = c.wait();
        }
    }
}

fn loadf_line(iso: &mut Isolated, fmt: &str, what: &str, bytes: &[u8]) -> String {
    let a = iso.load(fmt, bytes);
    // small payloads travel in the line (replayable); large ones by description only
    if bytes.len() <= 4096 {
        format!("LOADF {} {} {} :: {}", fmt, what, hex(bytes), a)
    } else {
        format!("LOADF {} {} big:{} :: {}", fmt, what, bytes.len(), a)
    }
}

pub fn mutate(rng: &mut Rng, data: &[u8]) -> Vec<u8> {
    let mut d = data.to_vec();
    if d.is_empty() {
        return vec![rng.below(256) as u8];
    }
    match rng.below(7) {
        0 => {
            let k = rng.below(d.len() + 1);
            d.truncate(k);
        }
        1 => {
            let i = rng.below(d.len());
            d[i] ^= 1 << rng.below(8);
        }
        2 => {
            let i = rng.below(d.len());
            d[i] = *rng.pick(&[0u8, 0xff, 0x80, 0x7f, b'"', b'{', b'}', b'\n', b' ']);
        }
        3 => {
            let i = rng.below(d.len());
            let j = rng.below(d.len());
            let k = rng.range(1, 16).min(d.len() - j);
            let chunk: Vec<u8> = d[j..j + k].to_vec();
            d.splice(i..i, chunk);
        }
        4 => {
            let i = rng.below(d.len());
            let k = rng.range(1, 16).min(d.len() - i);
            d.drain(i..i + k);
        }
        5 => {
            // varint / length style: set a byte to a huge continuation value
            let i = rng.below(d.len());
            for b in d.iter_mut().skip(i).take(rng.range(1, 5)) {
                *b = 0xff;
            }
        }
        _ => {
            let i = rng.below(d.len());
            d[i] = rng.below(256) as u8;
        }
    }
    d
}

fn sp_model(rng: &mut Rng, variant: usize) -> Vec<u8> {
    use prost::Message;
    use sentencepiece_model::{ModelProto, NormalizerSpec, SentencePiece, TrainerSpec, Type};
    let mut m = ModelProto::default();
    let mut piece = |text: &str, score: f32, ty: Type| SentencePiece { piece: Some(text.to_string()), score: Some(score), r#type: Some(ty as i32) };
    m.pieces.push(piece("<unk>", 0.0, Type::Unknown));
    m.pieces.push(piece("<s>", 0.0, Type::Control));
    m.pieces.push(piece("</s>", 0.0, Type::Control));
    let scores = [-1.0f32, -2.5, f32::NAN, f32::INFINITY, f32::NEG_INFINITY, 0.0, -0.0];
    for (i, t) in ["▁", "a", "b", "ab", "▁a", "▁ab", "é"].iter().enumerate() {
        let s = if variant % 5 == 1 { *rng.pick(&scores) } else { -(i as f32) };
        m.pieces.push(piece(t, s, Type::Normal));
    }
    match variant % 7 {
        2 => m.pieces.push(piece("<0x4", 0.0, Type::Byte)),
        3 => m.pieces.push(piece("<0xé>", 0.0, Type::Byte)),
        4 => m.pieces.push(piece("", 0.0, Type::Byte)),
        5 => m.pieces.push(SentencePiece { piece: None, score: None, r#type: None }),
        6 => {
            for b in 0..=255u32 {
                m.pieces.push(piece(&format!("<0x{:02X}>", b), 0.0, Type::Byte));
            }
        }
        _ => {}
    }
    let mut t = TrainerSpec::default();
    t.model_type = Some(if variant % 2 == 0 { 1 } else { 2 });
    t.byte_fallback = Some(variant % 3 == 0);
    if variant % 4 == 0 {
        t.unk_id = Some(-1);
        t.bos_id = Some(-1);
        t.eos_id = Some(-1);
        t.pad_id = Some(-1);
    }
    m.trainer_spec = Some(t);
    let mut n = NormalizerSpec::default();
    n.name = Some(rng.pick(&["identity", "nmt_nfkc", "nfkc", "user_defined", "nmt_nfkc_cf", "nfkc_cf", "weird"]).to_string());
    n.precompiled_charsmap = match variant % 6 {
        0 => Some(vec![]),
        1 => Some(vec![0, 0, 0, 0]),
        2 => Some(vec![1, 0, 0, 0]),
        3 => Some(vec![8, 0, 0, 0, 1, 2, 3, 4, 5, 6, 7, 8, b'x', 0]),
        4 => Some(vec![0xff, 0xff, 0xff, 0xff, 1]),
        _ => None,
    };
    m.normalizer_spec = Some(n);
    m.encode_to_vec()
}

fn hf_json(rng: &mut Rng, variant: usize) -> Vec<u8> {
    let model = match variant % 4 {
        0 => r#"{"type":"BPE","vocab":{"a":0,"b":1,"ab":2,"<0x41>":3,"<0xZZ>":4,"Ġ":5},"merges":["a b"],"byte_fallback":true,"unk_token":"<unk>"}"#.to_string(),
        1 => r###"{"type":"WordPiece","vocab":{"[UNK]":0,"a":1,"##b":2},"unk_token":"[UNK]","continuing_subword_prefix":"##","max_input_chars_per_word":100}"###.to_string(),
        2 => r#"{"type":"Unigram","unk_id":0,"vocab":[["<unk>",0.0],["a",-1.0],["b",-1e39],["<0x41>",-2.0]],"byte_fallback":true}"#.to_string(),
        _ => format!(r#"{{"type":"BPE","vocab":{{"a":{},"b":1}},"merges":[]}}"#, *rng.pick(&[0u64, 4294967295, 4294967296, 7])),
    };
    let added = match variant % 5 {
        0 => r#"[{"id":0,"content":"<x>","single_word":false,"lstrip":false,"rstrip":false,"normalized":false,"special":true}]"#.to_string(),
        1 => r#"[{"id":4294967295,"content":"<y>","single_word":false,"lstrip":false,"rstrip":false,"normalized":true,"special":true},{"id":4294967295,"content":"<z>","single_word":false,"lstrip":false,"rstrip":false,"normalized":false,"special":false}]"#.to_string(),
        2 => "[]".to_string(),
        3 => r#"[{"id":1,"content":"","single_word":false,"lstrip":false,"rstrip":false,"normalized":false,"special":true}]"#.to_string(),
        _ => "null".to_string(),
    };
    let pre = match variant % 6 {
        0 => r#"{"type":"ByteLevel","add_prefix_space":false,"trim_offsets":true,"use_regex":true}"#,
        1 => r#"{"type":"Split","pattern":{"Regex":"(("},"behavior":"Isolated","invert":false}"#,
        2 => r#"{"type":"Sequence","pretokenizers":[{"type":"Digits","individual_digits":true},{"type":"Metaspace","replacement":"▁","prepend_scheme":"always","split":true}]}"#,
        3 => r#"{"type":"Split","pattern":{"String":""},"behavior":"MergedWithNext","invert":true}"#,
        4 => "null",
        _ => r#"{"type":"Whitespace"}"#,
    };
    let norm = match variant % 4 {
        0 => r#"{"type":"Precompiled","precompiled_charsmap":"AAAAAA=="}"#,
        1 => r#"{"type":"Sequence","normalizers":[{"type":"NFKC"},{"type":"Replace","pattern":{"Regex":"["},"content":"x"}]}"#,
        2 => "null",
        _ => r#"{"type":"Precompiled","precompiled_charsmap":"!!!"}"#,
    };
    format!(
        r#"{{"version":"1.0","truncation":{},"padding":null,"added_tokens":{},"normalizer":{},"pre_tokenizer":{},"post_processor":null,"decoder":{},"model":{}}}"#,
        if variant % 3 == 0 { r#"{"direction":"Right","max_length":4294967295,"strategy":"LongestFirst","stride":4294967295}"# } else { "null" },
        added,
        norm,
        pre,
        if variant % 2 == 0 { r#"{"type":"ByteFallback"}"# } else { "null" },
        model
    )
    .into_bytes()
}

fn tekken_json(rng: &mut Rng, variant: usize) -> Vec<u8> {
    let vs = *rng.pick(&[0usize, 1, 13, 14, 15, 100, 4294967295, 4294967296]);
    let ns = *rng.pick(&[0usize, 1, 14, 20, 4294967295]);
    format!(
        r#"{{"config":{{"pattern":"{}","num_vocab_tokens":3,"default_vocab_size":{},"default_num_special_tokens":{},"version":"{}"}},"vocab":[{{"rank":0,"token_bytes":"YQ==","token_str":"a"}},{{"rank":{},"token_bytes":"{}","token_str":null}}]}}"#,
        if variant % 4 == 0 { "((" } else { r"\\s+" },
        vs,
        ns,
        if variant % 5 == 0 { "v2" } else { "v3" },
        *rng.pick(&[1u64, 4294967295, 4294967296, 18446744073709551615]),
        if variant % 3 == 0 { "!!" } else { "Yg==" }
    )
    .into_bytes()
}

fn tiktoken_text(rng: &mut Rng, variant: usize) -> Vec<u8> {
    let mut s = String::new();
    let n = match variant % 4 {
        0 => 0,
        1 => 3,
        _ => rng.range(1, 6),
    };
    for i in 0..n {
        let tok = ["YQ==", "Yg==", "YWI=", "", "!!", "YQ"][rng.below(6)];
        let id = [i.to_string(), "4294967295".into(), "4294967296".into(), "-1".into(), "x".into(), "".into()][rng.below(6)].clone();
        s.push_str(&format!("{} {}{}", tok, id, if rng.chance(1, 3) { "\r\n" } else { "\n" }));
    }
    if variant % 5 == 0 {
        s.push_str("YQ==0\n");
    }
    s.into_bytes()
}

pub fn gen(rng: &mut Rng, thorough: bool, out: &mut Sink) {
    let mut iso = Isolated::new();
    // ---- structure-aware generated files of every format
    let n = if thorough { 3000 } else { 250 };
    for v in 0..n {
        out.push(loadf_line(&mut iso, "sentencepiece", "generated", &sp_model(rng, v)));
        out.push(loadf_line(&mut iso, "tokenizers", "generated", &hf_json(rng, v)));
        out.push(loadf_line(&mut iso, "tekken", "generated", &tekken_json(rng, v)));
        out.push(loadf_line(&mut iso, "tiktoken", "generated", &tiktoken_text(rng, v)));
        let f = ["auto", "sentencepiece", "tokenizers", "tekken", "tiktoken"][v % 5];
        let base = match v % 4 {
            0 => sp_model(rng, v),
            1 => hf_json(rng, v),
            2 => tekken_json(rng, v),
            _ => tiktoken_text(rng, v),
        };
        let m = mutate(rng, &base);
        out.push(loadf_line(&mut iso, f, "generated-mutated", &m));
        out.push(loadf_line(&mut iso, "auto", "generated", &base));
    }
    for b in [vec![], vec![0u8], b"kitoken".to_vec(), b"kitoken\x00\x01".to_vec(), b"kitoken\x00\x02\x00".to_vec(), b"{}".to_vec(), b"[]".to_vec(), vec![0xff; 64]] {
        for f in ["auto", "sentencepiece", "tokenizers", "tekken", "tiktoken"] {
            out.push(loadf_line(&mut iso, f, "boundary", &b));
        }
    }
    // ---- mutations and truncations of the shipped files
    let per_file = if thorough { 400 } else { 12 };
    for (name, path) in shipped_models() {
        let data = match std::fs::read(&path) {
            Ok(d) => d,
            Err(_) => continue,
        };
        let fmt = if name.starts_with("sentencepiece") {
            "sentencepiece"
        } else if name.starts_with("tokenizers") {
            "tokenizers"
        } else if name.starts_with("tiktoken") {
            "tiktoken"
        } else if name.starts_with("tekken") {
            "tekken"
        } else {
            "auto"
        };
        for k in 0..per_file {
            let m = if k % 3 == 0 {
                // prefix truncation classes: inside the header, early, middle, near the end
                let cut = match k % 12 {
                    0 => rng.below(16.min(data.len())),
                    3 => rng.below(data.len() / 10 + 1),
                    6 => data.len() / 2 + rng.below(64).min(data.len() / 2),
                    _ => data.len() - 1 - rng.below(32.min(data.len() - 1)),
                };
                data[..cut].to_vec()
            } else {
                mutate(rng, &data)
            };
            out.push(loadf_line(&mut iso, if k % 2 == 0 { fmt } else { "auto" }, &name, &m));
        }
        out.count("shipped_files");
    }
    // ---- native files through the model: serialized generated definitions, mutated
    let ndefs = if thorough { 3000 } else { 200 };
    for k in 0..ndefs {
        let def = crate::enc::gen_full_definition(rng, false, k % 3 == 0);
        let bytes = def.to_vec();
        out.push(initb_line(&bytes));
        for _ in 0..(if thorough { 30 } else { 12 }) {
            let m = mutate(rng, &bytes);
            out.push(initb_line(&m));
            out.push(crate::c14::deser_line(&m));
        }
        // every prefix truncation of a small file
        if k % 20 == 0 {
            for cut in 0..bytes.len().min(400) {
                out.push(initb_line(&bytes[..cut]));
            }
        }
    }
    out.add("child_crashes", iso.crashes);
}

/// Native load: `Definition::from_slice` (native branch) then `Kitoken::from_definition`.
pub fn initb_answer(bytes: &[u8]) -> (String, String) {
    kitoken::verif::start();
    let r = guarded(|| {
        if !(bytes.len() >= 9 && &bytes[..7] == b"kitoken") {
            return "ERR deser".to_string();
        }
        match Definition::from_slice(bytes) {
            Err(_) => "ERR deser".to_string(),
            Ok(d) => match Kitoken::from_definition(d) {
                Ok(_) => "OK".to_string(),
                Err(e) => {
                    let a = init_answer(&Err(e));
                    a
                }
            },
        }
    });
    let ora = oracle_words();
    (r.unwrap_or_else(|| "PANIC".into()), ora)
}
pub fn initb_line(bytes: &[u8]) -> String {
    let (a, ora) = initb_answer(bytes);
    format!("INITB {}{} :: {}", hex(bytes), ora, a)
}

pub fn run_request(words: &[&str]) -> Option<(String, String)> {
    let args: Vec<&str> = words.iter().copied().filter(|x| !x.starts_with("ORA:")).collect();
    match args[0] {
        "INITB" => {
            let bytes = unhex(args.get(1)?);
            let l = initb_line(&bytes);
            let mut it = l.splitn(2, " :: ");
            Some((it.next()?.to_string(), it.next()?.to_string()))
        }
        "LOADF" => {
            let payload = args.get(3)?;
            if payload.starts_with("big:") {
                return Some((args.join(" "), "SKIPPED-BIG".into()));
            }
            let bytes = unhex(payload);
            let mut iso = Isolated::new();
            let a = iso.load(args.get(1)?, &bytes);
            Some((args.join(" "), a))
        }
        _ => None,
    }
}
