//! C17 — loading arbitrary bytes returns a tokenizer or an error, never a crash.
//! LOADF ops: `Kitoken::from_slice` (auto-detection) and the per-format loaders on mutated / generated
//! files, executed in a child process so that aborts, stack overflows and hangs are observed.
//! INITB ops: native files through the model (`from_slice` + `Kitoken::new`), outcome compared.
use crate::defs::*;
use crate::rng::Rng;
use crate::sink::Sink;
use crate::util::*;
use kitoken::*;
use std::io::{BufRead, BufReader, Write};
use std::process::{Child, Command, Stdio};

/// Runs one load request in-process. `fmt`: auto | kit | tiktoken | tekken | sentencepiece | tokenizers.
pub fn load_outcome(fmt: &str, bytes: &[u8]) -> String {
    let r = guarded(|| -> Result<(), String> {
        match fmt {
            "auto" => Kitoken::from_slice(bytes).map(|_| ()).map_err(|e| format!("{}", e)),
            "tiktoken" => Kitoken::from_tiktoken_slice(bytes).map(|_| ()).map_err(|e| format!("{}", e)),
            "tekken" => Kitoken::from_tekken_slice(bytes).map(|_| ()).map_err(|e| format!("{}", e)),
            "sentencepiece" => Kitoken::from_sentencepiece_slice(bytes).map(|_| ()).map_err(|e| format!("{}", e)),
            "tokenizers" => Kitoken::from_tokenizers_slice(bytes).map(|_| ()).map_err(|e| format!("{}", e)),
            _ => Err("unknown format".into()),
        }
    });
    match r {
        Some(Ok(())) => "OK".into(),
        Some(Err(e)) => {
            if std::env::var("KVH_VERBOSE").is_ok() {
                format!("ERR {}", e.replace('\n', " "))
            } else {
                "ERR".into()
            }
        }
        None => "PANIC".into(),
    }
}

/// Child mode: one `fmt hex` request per line on stdin, one outcome per line on stdout.
pub fn child_main() {
    let stdin = std::io::stdin();
    let mut out = std::io::stdout();
    for line in stdin.lock().lines() {
        let line = match line {
            Ok(l) => l,
            Err(_) => break,
        };
        let mut it = line.split(' ');
        let fmt = it.next().unwrap_or("");
        let payload = it.next().unwrap_or("-");
        let bytes = payload_bytes(payload);
        let a = load_outcome(fmt, &bytes);
        writeln!(out, "{}", a).unwrap();
        out.flush().unwrap();
    }
}

/// Payload of a load request: hex bytes, or `file:<path>:<seed>:<k>` = the k-th deterministic mutation
/// (k = 0: unmodified) of a file on disk.
pub fn payload_bytes(payload: &str) -> Vec<u8> {
    if let Some(rest) = payload.strip_prefix("file:") {
        let parts: Vec<&str> = rest.rsplitn(3, ':').collect();
        if parts.len() == 3 {
            let (k, seed, path) = (parts[0].parse::<u64>().unwrap_or(0), parts[1].parse::<u64>().unwrap_or(0), parts[2]);
            let data = std::fs::read(path).unwrap_or_default();
            return file_mutation(&data, seed, k);
        }
        Vec::new()
    } else {
        unhex(payload)
    }
}

pub fn file_mutation(data: &[u8], seed: u64, k: u64) -> Vec<u8> {
    if k == 0 || data.is_empty() {
        return data.to_vec();
    }
    let mut rng = Rng::new(seed.wrapping_mul(0x9E37_79B9).wrapping_add(k));
    if k % 3 == 0 {
        // prefix truncation classes: inside the header, early, middle, near the end
        let cut = match k % 12 {
            0 => rng.below(16.min(data.len())),
            3 => rng.below(data.len() / 10 + 1),
            6 => data.len() / 2 + rng.below(64).min(data.len() / 2),
            _ => data.len() - 1 - rng.below(32.min(data.len() - 1)),
        };
        data[..cut].to_vec()
    } else {
        mutate(&mut rng, data)
    }
}

pub struct Isolated {
    child: Option<(Child, BufReader<std::process::ChildStdout>)>,
    pub crashes: u64,
}
impl Isolated {
    pub fn new() -> Self {
        Isolated { child: None, crashes: 0 }
    }
    fn spawn(&mut self) {
        let exe = std::env::current_exe().expect("exe");
        let mut c = Command::new(exe)
            .arg("child-load")
            .stdin(Stdio::piped())
            .stdout(Stdio::piped())
            .stderr(Stdio::null())
            .spawn()
            .expect("spawn child");
        let out = BufReader::new(c.stdout.take().unwrap());
        self.child = Some((c, out));
    }
    /// Outcome of loading `bytes` as `fmt` in the child; `CRASH` if the child died or hung.
    pub fn load(&mut self, fmt: &str, bytes: &[u8]) -> String {
        self.load_payload(fmt, &hex(bytes))
    }
    pub fn load_payload(&mut self, fmt: &str, payload: &str) -> String {
        if self.child.is_none() {
            self.spawn();
        }
        let (c, out) = self.child.as_mut().unwrap();
        let req = format!("{} {}\n", fmt, payload);
        let ok = c.stdin.as_mut().map(|s| s.write_all(req.as_bytes()).and_then(|_| s.flush()).is_ok()).unwrap_or(false);
        let mut line = String::new();
        let got = if ok {
            // a watchdog thread kills the child if it does not answer within the limit
            let pid = c.id();
            let done = std::sync::Arc::new(std::sync::atomic::AtomicBool::new(false));
            let d2 = done.clone();
            let watchdog = std::thread::spawn(move || {
                for _ in 0..600 {
                    std::thread::sleep(std::time::Duration::from_millis(100));
                    if d2.load(std::sync::atomic::Ordering::SeqCst) {
                        return;
                    }
                }
                let _ = Command::new("kill").arg("-9").arg(pid.to_string()).status();
            });
            let n = out.read_line(&mut line).unwrap_or(0);
            done.store(true, std::sync::atomic::Ordering::SeqCst);
            let _ = watchdog.join();
            n > 0
        } else {
            false
        };
        if got {
            line.trim().to_string()
        } else {
            self.crashes += 1;
            if let Some((mut c, _)) = self.child.take() {
                let _ = c.kill();
                let _ = c.wait();
            }
            "CRASH".into()
        }
    }
}
impl Drop for Isolated {
    fn drop(&mut self) {
        if let Some((mut c, _)) = self.child.take() {
            drop(c.stdin.take());
            let _ = c.wait();
        }
    }
}

/// `LOADTT <data> :: OK <entries> <digest> | ERR`: the Tiktoken loader from raw bytes, for the Lean model of
/// the whole loader (lines, base64, decimal ids, conversion).
pub fn loadtt_line(bytes: &[u8]) -> String {
    let a = match guarded(|| Definition::from_tiktoken_slice(bytes)) {
        Some(Ok(d)) => {
            let mut listing = String::new();
            if let Model::BytePair { vocab, .. } = &d.model {
                for t in vocab.iter() {
                    listing.push_str(&format!("{}:{};", t.id, hex(&t.bytes)));
                }
                listing.push('|');
                for sp in d.specials.iter() {
                    listing.push_str(&format!("{}:{};", sp.id, hex(&sp.bytes)));
                }
                format!("OK {} {:016x}", vocab.len(), crate::c19::fnv(listing.as_bytes()))
            } else {
                "ERR model".to_string()
            }
        }
        Some(Err(_)) => "ERR".to_string(),
        None => "PANIC".to_string(),
    };
    format!("LOADTT {} :: {}", hex(bytes), a)
}

fn loadf_line(iso: &mut Isolated, fmt: &str, what: &str, bytes: &[u8]) -> String {
    let a = iso.load(fmt, bytes);
    // small payloads travel in the line (replayable); large ones by description only
    if bytes.len() <= 4096 {
        format!("LOADF {} {} {} :: {}", fmt, what, hex(bytes), a)
    } else {
        format!("LOADF {} {} big:{} :: {}", fmt, what, bytes.len(), a)
    }
}

pub fn mutate(rng: &mut Rng, data: &[u8]) -> Vec<u8> {
    let mut d = data.to_vec();
    if d.is_empty() {
        return vec![rng.below(256) as u8];
    }
    match rng.below(7) {
        0 => {
            let k = rng.below(d.len() + 1);
            d.truncate(k);
        }
        1 => {
            let i = rng.below(d.len());
            d[i] ^= 1 << rng.below(8);
        }
        2 => {
            let i = rng.below(d.len());
            d[i] = *rng.pick(&[0u8, 0xff, 0x80, 0x7f, b'"', b'{', b'}', b'\n', b' ']);
        }
        3 => {
            let i = rng.below(d.len());
            let j = rng.below(d.len());
            let k = rng.range(1, 16).min(d.len() - j);
            let chunk: Vec<u8> = d[j..j + k].to_vec();
            d.splice(i..i, chunk);
        }
        4 => {
            let i = rng.below(d.len());
            let k = rng.range(1, 16).min(d.len() - i);
            d.drain(i..i + k);
        }
        5 => {
            // varint / length style: set a byte to a huge continuation value
            let i = rng.below(d.len());
            for b in d.iter_mut().skip(i).take(rng.range(1, 5)) {
                *b = 0xff;
            }
        }
        _ => {
            let i = rng.below(d.len());
            d[i] = rng.below(256) as u8;
        }
    }
    d
}

pub fn sp_model(rng: &mut Rng, variant: usize) -> Vec<u8> {
    use prost::Message;
    use sentencepiece_model::{ModelProto, NormalizerSpec, SentencePiece, TrainerSpec, Type};
    let mut m = ModelProto::default();
    let mut piece = |text: &str, score: f32, ty: Type| SentencePiece { piece: Some(text.to_string()), score: Some(score), r#type: Some(ty as i32) };
    m.pieces.push(piece("<unk>", 0.0, Type::Unknown));
    m.pieces.push(piece("<s>", 0.0, Type::Control));
    m.pieces.push(piece("</s>", 0.0, Type::Control));
    let scores = [-1.0f32, -2.5, f32::NAN, f32::INFINITY, f32::NEG_INFINITY, 0.0, -0.0];
    for (i, t) in ["▁", "a", "b", "ab", "▁a", "▁ab", "é"].iter().enumerate() {
        let s = if variant % 5 == 1 { *rng.pick(&scores) } else { -(i as f32) };
        m.pieces.push(piece(t, s, Type::Normal));
    }
    match variant % 7 {
        2 => m.pieces.push(piece("<0x4", 0.0, Type::Byte)),
        3 => {
            // a multi-byte character at every position of the `<0xNN>` form (the converter slices bytes 3..5)
            let base: Vec<char> = "<0x41>".chars().collect();
            let c = *rng.pick(&['é', '€', '😀', 'ÿ']);
            let pos = rng.below(base.len() + 1);
            let mut t: String = base[..pos].iter().collect();
            t.push(c);
            if rng.chance(1, 2) && pos < base.len() {
                t.extend(base[pos + 1..].iter());
            } else {
                t.extend(base[pos..].iter());
            }
            m.pieces.push(piece(&t, 0.0, Type::Byte));
        }
        4 => m.pieces.push(piece("", 0.0, Type::Byte)),
        5 => m.pieces.push(SentencePiece { piece: None, score: None, r#type: None }),
        6 => {
            for b in 0..=255u32 {
                m.pieces.push(piece(&format!("<0x{:02X}>", b), 0.0, Type::Byte));
            }
        }
        _ => {}
    }
    let mut t = TrainerSpec::default();
    t.model_type = Some(if variant % 2 == 0 { 1 } else { 2 });
    t.byte_fallback = Some(variant % 3 == 0);
    if variant % 4 == 0 {
        t.unk_id = Some(-1);
        t.bos_id = Some(-1);
        t.eos_id = Some(-1);
        t.pad_id = Some(-1);
    }
    m.trainer_spec = Some(t);
    let mut n = NormalizerSpec::default();
    n.name = Some(rng.pick(&["identity", "nmt_nfkc", "nfkc", "user_defined", "nmt_nfkc_cf", "nfkc_cf", "weird"]).to_string());
    n.precompiled_charsmap = match variant % 6 {
        0 => Some(vec![]),
        1 => Some(vec![0, 0, 0, 0]),
        2 => Some(vec![1, 0, 0, 0]),
        3 => Some(vec![8, 0, 0, 0, 1, 2, 3, 4, 5, 6, 7, 8, b'x', 0]),
        4 => Some(vec![0xff, 0xff, 0xff, 0xff, 1]),
        _ => None,
    };
    m.normalizer_spec = Some(n);
    m.encode_to_vec()
}

pub fn hf_json(rng: &mut Rng, variant: usize) -> Vec<u8> {
    // mostly valid files: each gets at most two boundary tweaks (`odd` picks which)
    let odd = |rng: &mut Rng| rng.chance(1, 6);
    let big_id = if odd(rng) { *rng.pick(&["4294967295", "4294967294", "4294967296"]) } else { "6" };
    let model = match variant % 3 {
        0 => format!(
            r#"{{"type":"BPE","vocab":{{"<unk>":0,"a":1,"b":2,"ab":3,"<0x41>":4,"A":10,"{}":5,"€":7,"a€":8,"Ġa":9,"Ġ":{}}},"merges":["a b"],"byte_fallback":{},"unk_token":"<unk>"}}"#,
            if odd(rng) { *rng.pick(&["<0xZZ>", "<0x4", "<0xÿ>", "<0x00>", "<0xÃ(>", "<0x+F>", "<0xĠĠ>", "<0xÃ©>"]) } else { "<0x42>" },
            big_id,
            if variant % 2 == 0 { "true" } else { "false" }
        ),
        1 => r###"{"type":"WordPiece","vocab":{"[UNK]":0,"a":1,"##b":2,"##":3},"unk_token":"[UNK]","continuing_subword_prefix":"##","max_input_chars_per_word":100}"###.to_string(),
        _ => format!(
            r#"{{"type":"Unigram","unk_id":{},"vocab":[["<unk>",0.0],["a",-1.0],["b",{}],["A",-1.5],["<0x41>",-2.0],["<0x{}>",-3.0]],"byte_fallback":{}}}"#,
            if odd(rng) { *rng.pick(&["7", "null"]) } else { "0" },
            if odd(rng) { "-1e39" } else { "-1.5" },
            if odd(rng) { "Zz" } else { "42" },
            if variant % 2 == 0 { "true" } else { "false" }
        ),
    };
    let unk = if variant % 3 == 1 { "[UNK]" } else { "<unk>" };
    let mut added = format!(r#"[{{"id":0,"content":"{}","single_word":false,"lstrip":false,"rstrip":false,"normalized":false,"special":true}}"#, unk);
    if rng.chance(1, 2) {
        // an added token whose id collides with a different vocabulary token, possibly at the top of the id space
        added.push_str(&format!(
            r#",{{"id":{},"content":"<y>","single_word":false,"lstrip":false,"rstrip":false,"normalized":{},"special":{}}}"#,
            if odd(rng) { big_id } else { "1" },
            rng.chance(1, 2),
            rng.chance(1, 2)
        ));
    }
    if rng.chance(1, 2) {
        // further added tokens whose ids collide with different vocabulary tokens: each must get a free id,
        // the same one on every conversion
        for (id, content) in [(2, "<z>"), (3, "<w>"), (4, "<v>")] {
            if rng.chance(2, 3) {
                added.push_str(&format!(
                    r#",{{"id":{},"content":"{}","single_word":false,"lstrip":false,"rstrip":false,"normalized":false,"special":{}}}"#,
                    id,
                    content,
                    rng.chance(1, 2)
                ));
            }
        }
    }
    if rng.chance(1, 2) {
        // an added token that legitimately sits right above the vocabulary: a renumbered one must not get its id
        added.push_str(r#",{"id":11,"content":"<t>","single_word":false,"lstrip":false,"rstrip":false,"normalized":false,"special":true}"#);
    }
    if odd(rng) {
        added.push_str(r#",{"id":9,"content":"","single_word":false,"lstrip":false,"rstrip":false,"normalized":false,"special":true}"#);
    }
    added.push(']');
    if variant % 3 != 1 && rng.chance(1, 3) {
        // the unknown token is not the first added token: its position in the list differs from its id
        added = format!(
            r#"[{{"id":2,"content":"b","single_word":false,"lstrip":false,"rstrip":false,"normalized":true,"special":false}},{}"#,
            &added[1..]
        );
    }
    let pre = match variant % 6 {
        0 => r#"{"type":"ByteLevel","add_prefix_space":false,"trim_offsets":true,"use_regex":true}"#.to_string(),
        1 => format!(r#"{{"type":"Split","pattern":{{"Regex":"{}"}},"behavior":"Isolated","invert":false}}"#, if odd(rng) { "((" } else { "\\s+" }),
        2 => r#"{"type":"Sequence","pretokenizers":[{"type":"Digits","individual_digits":true},{"type":"Metaspace","replacement":"▁","prepend_scheme":"always","split":true}]}"#.to_string(),
        3 => format!(r#"{{"type":"Split","pattern":{{"String":"{}"}},"behavior":"MergedWithNext","invert":true}}"#, if odd(rng) { "" } else { " " }),
        4 => "null".to_string(),
        _ => r#"{"type":"Whitespace"}"#.to_string(),
    };
    let norm = match variant % 4 {
        0 => format!(r#"{{"type":"Precompiled","precompiled_charsmap":"{}"}}"#, if odd(rng) { *rng.pick(&["AAAAAA==", "AQAAAA==", "!!!", ""]) } else { "CAAAAAAAAAAAAAAAWAA=" }),
        1 => format!(r#"{{"type":"Sequence","normalizers":[{{"type":"NFKC"}},{{"type":"Replace","pattern":{{"Regex":"{}"}},"content":"x"}}]}}"#, if odd(rng) { "[" } else { "a+" }),
        2 => "null".to_string(),
        _ => r#"{"type":"BertNormalizer","clean_text":true,"handle_chinese_chars":true,"strip_accents":null,"lowercase":true}"#.to_string(),
    };
    format!(
        r#"{{"version":"1.0","truncation":{},"padding":null,"added_tokens":{},"normalizer":{},"pre_tokenizer":{},"post_processor":null,"decoder":{},"model":{}}}"#,
        if variant % 3 == 0 { r#"{"direction":"Right","max_length":4294967295,"strategy":"LongestFirst","stride":4294967295}"# } else { "null" },
        added,
        norm,
        pre,
        // independent of the model's `byte_fallback` flag: either of the two turns `<0xNN>` decoding on
        if rng.chance(1, 2) { r#"{"type":"ByteFallback"}"# } else { "null" },
        model
    )
    .into_bytes()
}

/// A Tokenizers JSON that walks through every normalizer, pre-tokenizer, post-processor and decoder variant the
/// converter knows (nested sequences included), around a small valid vocabulary of one of the three model kinds.
pub fn hf_zoo(rng: &mut Rng, variant: usize) -> Vec<u8> {
    let normalizers = [
        r#"{"type":"BertNormalizer","clean_text":true,"handle_chinese_chars":true,"strip_accents":null,"lowercase":true}"#,
        r#"{"type":"BertNormalizer","clean_text":false,"handle_chinese_chars":false,"strip_accents":true,"lowercase":false}"#,
        r#"{"type":"StripNormalizer","strip_left":true,"strip_right":true}"#,
        r#"{"type":"StripNormalizer","strip_left":false,"strip_right":true}"#,
        r#"{"type":"StripAccents"}"#,
        r#"{"type":"NFC"}"#,
        r#"{"type":"NFD"}"#,
        r#"{"type":"NFKC"}"#,
        r#"{"type":"NFKD"}"#,
        r#"{"type":"Lowercase"}"#,
        r#"{"type":"Nmt"}"#,
        r#"{"type":"Precompiled","precompiled_charsmap":"CAAAAAAAAAAAAAAAWAA="}"#,
        r#"{"type":"Replace","pattern":{"String":" "},"content":"▁"}"#,
        r#"{"type":"Replace","pattern":{"String":""},"content":"x"}"#,
        r#"{"type":"Replace","pattern":{"Regex":"\s+"},"content":" "}"#,
        r#"{"type":"Replace","pattern":{"String":"a"},"content":"$0$1"}"#,
        r#"{"type":"Prepend","prepend":"▁"}"#,
        r#"{"type":"Prepend","prepend":""}"#,
    ];
    let pre_tokenizers = [
        r#"{"type":"BertPreTokenizer"}"#,
        r#"{"type":"ByteLevel","add_prefix_space":true,"trim_offsets":true,"use_regex":true}"#,
        r#"{"type":"ByteLevel","add_prefix_space":false,"trim_offsets":false,"use_regex":false}"#,
        r#"{"type":"Delimiter","delimiter":"-"}"#,
        r#"{"type":"Delimiter","delimiter":"é"}"#,
        r#"{"type":"Metaspace","replacement":"▁","prepend_scheme":"always","split":true}"#,
        r#"{"type":"Metaspace","replacement":"▁","prepend_scheme":"first","split":false}"#,
        r#"{"type":"Metaspace","replacement":"_","prepend_scheme":"never","add_prefix_space":false,"split":true}"#,
        r#"{"type":"Metaspace","replacement":"▁","prepend_scheme":"always","add_prefix_space":false}"#,
        r#"{"type":"Whitespace"}"#,
        r#"{"type":"WhitespaceSplit"}"#,
        r#"{"type":"Split","pattern":{"String":" "},"behavior":"Removed","invert":false}"#,
        r#"{"type":"Split","pattern":{"String":"é"},"behavior":"Removed","invert":true}"#,
        r#"{"type":"Split","pattern":{"Regex":"\d"},"behavior":"MergedWithPrevious","invert":false}"#,
        r#"{"type":"Split","pattern":{"String":"ab"},"behavior":"Contiguous","invert":false}"#,
        r#"{"type":"Split","pattern":{"String":""},"behavior":"Isolated","invert":false}"#,
        r#"{"type":"Punctuation","behavior":"Removed"}"#,
        r#"{"type":"Punctuation","behavior":"MergedWithNext"}"#,
        r#"{"type":"Punctuation"}"#,
        r#"{"type":"Digits","individual_digits":true}"#,
        r#"{"type":"Digits","individual_digits":false}"#,
        r#"{"type":"UnicodeScripts"}"#,
    ];
    let decoders = [
        r#"{"type":"BPEDecoder","suffix":"</w>"}"#,
        r#"{"type":"ByteLevel"}"#,
        r###"{"type":"WordPiece","prefix":"##","cleanup":true}"###,
        r###"{"type":"WordPiece","prefix":"##","cleanup":false}"###,
        r#"{"type":"Metaspace","replacement":"▁","prepend_scheme":"always"}"#,
        r#"{"type":"Metaspace","replacement":"▁","prepend_scheme":"never","add_prefix_space":false}"#,
        r#"{"type":"CTC","pad_token":"<pad>","word_delimiter_token":"|","cleanup":true}"#,
        r#"{"type":"Replace","pattern":{"String":"▁"},"content":" "}"#,
        r#"{"type":"Replace","pattern":{"Regex":"(("},"content":" "}"#,
        r#"{"type":"Fuse"}"#,
        r#"{"type":"Strip","content":" ","start":1,"stop":0}"#,
        r#"{"type":"Strip","content":"▁","start":4294967296,"stop":0}"#,
        r#"{"type":"ByteFallback"}"#,
    ];
    let post_processors = [
        r#"{"type":"RobertaProcessing","sep":["</s>",2],"cls":["<s>",1],"trim_offsets":true,"add_prefix_space":true}"#,
        r#"{"type":"BertProcessing","sep":["[SEP]",102],"cls":["[CLS]",101]}"#,
        r#"{"type":"ByteLevel","add_prefix_space":true,"trim_offsets":false,"use_regex":true}"#,
        r#"{"type":"TemplateProcessing","single":[{"SpecialToken":{"id":"<s>","type_id":0}},{"Sequence":{"id":"A","type_id":0}},{"SpecialToken":{"id":"</s>","type_id":0}}],"pair":[{"Sequence":{"id":"A","type_id":0}},{"SpecialToken":{"id":"</s>","type_id":0}},{"Sequence":{"id":"B","type_id":1}}],"special_tokens":{"<s>":{"id":"<s>","ids":[1],"tokens":["<s>"]},"</s>":{"id":"</s>","ids":[2],"tokens":["</s>"]}}}"#,
        r#"{"type":"TemplateProcessing","single":[{"Sequence":{"id":"A","type_id":0}}],"pair":[],"special_tokens":{"<x>":{"id":"<x>","ids":[],"tokens":[]},"<y>":{"id":"<y>","ids":[7,8],"tokens":["<y>"]}}}"#,
    ];
    let pick_seq = |rng: &mut Rng, items: &[&str], key: &str, seq_type: &str| -> String {
        match rng.below(5) {
            0 => "null".to_string(),
            1 | 2 => rng.pick(items).to_string(),
            3 => format!(r#"{{"type":"{}","{}":[{},{}]}}"#, seq_type, key, rng.pick(items), rng.pick(items)),
            _ => format!(
                r#"{{"type":"{}","{}":[{},{{"type":"{}","{}":[{},{}]}},{}]}}"#,
                seq_type, key, rng.pick(items), seq_type, key, rng.pick(items), rng.pick(items), rng.pick(items)
            ),
        }
    };
    let norm = pick_seq(rng, &normalizers, "normalizers", "Sequence");
    let pre = pick_seq(rng, &pre_tokenizers, "pretokenizers", "Sequence");
    let dec = pick_seq(rng, &decoders, "decoders", "Sequence");
    let post = pick_seq(rng, &post_processors, "processors", "Sequence");
    let model = match variant % 3 {
        0 => format!(
            r#"{{"type":"BPE","vocab":{{"<unk>":0,"<s>":1,"</s>":2,"a":3,"b":4,"ab":5,"▁":6,"▁a":7,"Ġ":8,"é":9,"1":10,"|":11}},"merges":{},"unk_token":"<unk>","fuse_unk":{},"byte_fallback":false,"end_of_word_suffix":{}}}"#,
            if variant % 2 == 0 { r#"["a b","▁ a"]"# } else { r#"[["a","b"],["▁","a"]]"# },
            variant % 4 == 0,
            if variant % 5 == 0 { r#""</w>""# } else { "null" }
        ),
        1 => r###"{"type":"WordPiece","vocab":{"[UNK]":0,"[CLS]":101,"[SEP]":102,"a":1,"b":2,"##b":3,"##a":4,"1":5},"unk_token":"[UNK]","continuing_subword_prefix":"##","max_input_chars_per_word":100}"###.to_string(),
        _ => r#"{"type":"Unigram","unk_id":0,"vocab":[["<unk>",0.0],["<s>",0.0],["</s>",0.0],["▁",-1.0],["a",-1.5],["b",-2.0],["ab",-2.5],["▁a",-3.0],["1",-3.5],["é",-4.0]],"byte_fallback":false}"#.to_string(),
    };
    let added = match variant % 3 {
        1 => r#"[{"id":0,"content":"[UNK]","single_word":false,"lstrip":false,"rstrip":false,"normalized":false,"special":true},{"id":101,"content":"[CLS]","single_word":false,"lstrip":false,"rstrip":false,"normalized":false,"special":true},{"id":102,"content":"[SEP]","single_word":false,"lstrip":false,"rstrip":false,"normalized":false,"special":true}]"#,
        _ => r#"[{"id":0,"content":"<unk>","single_word":false,"lstrip":false,"rstrip":false,"normalized":false,"special":true},{"id":1,"content":"<s>","single_word":false,"lstrip":false,"rstrip":false,"normalized":false,"special":true},{"id":2,"content":"</s>","single_word":false,"lstrip":false,"rstrip":false,"normalized":true,"special":true}]"#,
    };
    let padding = if rng.chance(1, 4) { r#"{"strategy":{"Fixed":8},"direction":"Left","pad_to_multiple_of":4,"pad_id":0,"pad_type_id":0,"pad_token":"<unk>"}"# } else { "null" };
    let truncation = if rng.chance(1, 4) { r#"{"direction":"Left","max_length":6,"strategy":"LongestFirst","stride":2}"# } else { "null" };
    format!(
        r#"{{"version":"1.0","truncation":{},"padding":{},"added_tokens":{},"normalizer":{},"pre_tokenizer":{},"post_processor":{},"decoder":{},"model":{}}}"#,
        truncation, padding, added, norm, pre, post, dec, model
    )
    .into_bytes()
}

pub fn tekken_json(rng: &mut Rng, variant: usize) -> Vec<u8> {
    let odd = |rng: &mut Rng| rng.chance(1, 6);
    // the number of special tokens around the 14 named ones (fewer, none, more), with a vocabulary size that fits it
    // (12 and 13 are the counts below 14 for which three vocabulary entries still leave room for tokens: the
    // converter emits the 14 named specials regardless and numbers the vocabulary after them)
    let nspecial = if rng.chance(1, 2) { *rng.pick(&[0usize, 1, 2, 12, 12, 13, 13, 15, 20, 4294967295]) } else { 14 };
    let vs = if odd(rng) { *rng.pick(&[0usize, 1, 13, 14, 100, 4294967295, 4294967296]) } else { nspecial.min(1000) + rng.range(1, 3) };
    let mut vocab = String::new();
    // ranks in file order, in another order, or with gaps: a token's id is its rank, not its position
    let ranks: [&str; 3] = *rng.pick(&[["0", "1", "2"], ["2", "0", "1"], ["1", "2", "0"], ["0", "2", "5"], ["5", "0", "2"]]);
    for (i, t) in ["YQ==", "Yg==", "YWI="].iter().enumerate() {
        if i > 0 {
            vocab.push(',');
        }
        vocab.push_str(&format!(
            r#"{{"rank":{},"token_bytes":"{}","token_str":null}}"#,
            if odd(rng) { *rng.pick(&["4294967295", "4294967296", "18446744073709551615", "4294967281"]) } else { ranks[i] },
            if odd(rng) { "!!" } else { t }
        ));
    }
    format!(
        r#"{{"config":{{"pattern":"{}","num_vocab_tokens":3,"default_vocab_size":{},"default_num_special_tokens":{},"version":"{}"}},"vocab":[{}]}}"#,
        if odd(rng) { "((" } else { r"\\s+" },
        vs,
        nspecial,
        if variant % 9 == 8 { "v2" } else { "v3" },
        vocab
    )
    .into_bytes()
}

pub fn tiktoken_text(rng: &mut Rng, variant: usize) -> Vec<u8> {
    let mut s = String::new();
    let n = match variant % 4 {
        0 => 0,
        1 => 3,
        _ => rng.range(1, 6),
    };
    for i in 0..n {
        let tok = ["YQ==", "Yg==", "YWI=", "", "!!", "YQ"][rng.below(6)];
        let id = [i.to_string(), "4294967295".into(), "4294967296".into(), "-1".into(), "x".into(), "".into()][rng.below(6)].clone();
        s.push_str(&format!("{} {}{}", tok, id, if rng.chance(1, 3) { "\r\n" } else { "\n" }));
    }
    if variant % 5 == 0 {
        s.push_str("YQ==0\n");
    }
    s.into_bytes()
}

pub fn gen(rng: &mut Rng, thorough: bool, out: &mut Sink) {
    let t0 = std::time::Instant::now();
    let timing = std::env::var("KVH_TIMING").is_ok();
    let mut iso = Isolated::new();
    // ---- structure-aware generated files of every format (loaded by 12 child processes in parallel)
    let n = if thorough { 3000 } else { 250 };
    let mut cases: Vec<(String, String, Vec<u8>)> = Vec::new();
    for v in 0..n {
        cases.push(("sentencepiece".into(), "generated".into(), sp_model(rng, v)));
        cases.push(("tokenizers".into(), "generated".into(), hf_json(rng, v)));
        cases.push(("tekken".into(), "generated".into(), tekken_json(rng, v)));
        cases.push(("tiktoken".into(), "generated".into(), tiktoken_text(rng, v)));
        cases.push(("tokenizers".into(), "generated-zoo".into(), hf_zoo(rng, v)));
        let f = ["auto", "sentencepiece", "tokenizers", "tekken", "tiktoken"][v % 5];
        let base = match v % 4 {
            0 => sp_model(rng, v),
            1 => hf_json(rng, v),
            2 => tekken_json(rng, v),
            _ => tiktoken_text(rng, v),
        };
        let m = mutate(rng, &base);
        cases.push((f.into(), "generated-mutated".into(), m));
        cases.push(("auto".into(), "generated".into(), base));
    }
    for b in [vec![], vec![0u8], b"kitoken".to_vec(), b"kitoken\x00\x01".to_vec(), b"kitoken\x00\x02\x00".to_vec(), b"{}".to_vec(), b"[]".to_vec(), vec![0xff; 64]] {
        for f in ["auto", "sentencepiece", "tokenizers", "tekken", "tiktoken"] {
            cases.push((f.into(), "boundary".into(), b.clone()));
        }
    }
    {
        let nthreads = 12;
        let cases = std::sync::Arc::new(cases);
        let mut handles = Vec::new();
        for t in 0..nthreads {
            let cases = cases.clone();
            handles.push(std::thread::spawn(move || {
                let mut iso = Isolated::new();
                let mut res = Vec::new();
                let mut i = t;
                while i < cases.len() {
                    let (f, what, bytes) = &cases[i];
                    res.push((i, loadf_line(&mut iso, f, what, bytes)));
                    i += nthreads;
                }
                (res, iso.crashes)
            }));
        }
        let mut all: Vec<(usize, String)> = Vec::new();
        let mut crashes = 0;
        for h in handles {
            let (res, c) = h.join().expect("thread");
            all.extend(res);
            crashes += c;
        }
        all.sort();
        for (_, l) in all {
            out.push(l);
        }
        out.add("child_crashes_generated", crashes);
    }
    // ---- the Tiktoken loader against its Lean model: generated texts, their mutations, the shipped files
    for v in 0..(if thorough { 6000 } else { 600 }) {
        let base = tiktoken_text(rng, v);
        out.push(loadtt_line(&base));
        let m = mutate(rng, &base);
        out.push(loadtt_line(&m));
        out.count("tiktoken_loader_model_cases");
    }
    for t in [&b"YQ== 1\n\xff\n"[..], &b"YQ== \xc3\xa9\n"[..], &b"\xff\xfe"[..]] {
        out.push(loadtt_line(t));
    }
    for t in ["YQ== 0\r\nYg== 1\r\n", "YQ== +1\n", "YQ== 1 \n", "YQ==  1\n", " 1\n", "YQ==\n", "YQ= 1\n", "YR== 1\n", "YWJ= 1\n", "YQ== 4294967295\n", "YQ== 4294967296\n",
              "YQ== 00000000000000000001\n", "\r\r\n\n", "YQ== 1\rYg== 2\n", "\rYQ== 1\r\r\n", "YQ==\t1\n", "YWJj 3\nYWJj 3\n"] {
        out.push(loadtt_line(t.as_bytes()));
    }
    for (name, path) in shipped_models() {
        if name.starts_with("tiktoken") {
            if let Ok(data) = std::fs::read(&path) {
                out.push(loadtt_line(&data));
                // a few mutations of the whole file
                for _ in 0..(if thorough { 6 } else { 1 }) {
                    out.push(loadtt_line(&mutate(rng, &data)));
                }
                out.count("tiktoken_loader_model_shipped");
            }
        }
    }
    if timing {
        eprintln!("generated files: {:?}", t0.elapsed());
    }
    // ---- mutations and truncations of the shipped files (12 child processes in parallel)
    let per_file: u64 = if thorough { 400 } else { 16 };
    let seed_base = rng.next() % 1_000_000;
    let mut jobs: Vec<(String, String, String)> = Vec::new(); // (fmt, name, payload)
    for (name, path) in shipped_models() {
        let fmt = if name.starts_with("sentencepiece") {
            "sentencepiece"
        } else if name.starts_with("tokenizers") {
            "tokenizers"
        } else if name.starts_with("tiktoken") {
            "tiktoken"
        } else if name.starts_with("tekken") {
            "tekken"
        } else {
            "auto"
        };
        for k in 1..=per_file {
            let f = if k % 2 == 0 { fmt } else { "auto" };
            jobs.push((f.to_string(), name.clone(), format!("file:{}:{}:{}", path.display(), seed_base, k)));
        }
        out.count("shipped_files");
    }
    let nthreads = 12;
    let jobs = std::sync::Arc::new(jobs);
    let mut handles = Vec::new();
    for t in 0..nthreads {
        let jobs = jobs.clone();
        handles.push(std::thread::spawn(move || {
            let mut iso = Isolated::new();
            let mut res = Vec::new();
            let mut i = t;
            while i < jobs.len() {
                let (f, name, payload) = &jobs[i];
                let a = iso.load_payload(f, payload);
                res.push((i, format!("LOADF {} {} {} :: {}", f, name, payload, a)));
                i += nthreads;
            }
            (res, iso.crashes)
        }));
    }
    let mut all: Vec<(usize, String)> = Vec::new();
    let mut crashes = 0;
    for h in handles {
        let (res, c) = h.join().expect("thread");
        all.extend(res);
        crashes += c;
    }
    all.sort();
    for (_, l) in all {
        out.push(l);
    }
    out.add("child_crashes_shipped", crashes);
    if timing {
        eprintln!("shipped mutations: {:?}", t0.elapsed());
    }
    // ---- native files through the model: serialized generated definitions, mutated
    let ndefs = if thorough { 3000 } else { 200 };
    for k in 0..ndefs {
        let def = crate::enc::gen_full_definition(rng, false, k % 3 == 0);
        let bytes = def.to_vec();
        out.push(initb_line(&bytes));
        for _ in 0..(if thorough { 30 } else { 12 }) {
            let m = mutate(rng, &bytes);
            out.push(initb_line(&m));
            out.push(crate::c14::deser_line(&m));
        }
        // every prefix truncation of a small file
        if k % 20 == 0 {
            for cut in 0..bytes.len().min(400) {
                out.push(initb_line(&bytes[..cut]));
            }
        }
    }
    // ---- every constructor error, from well-formed native files: wrong score count, duplicate token bytes, duplicate
    // special text, special text that is not UTF-8 — and their combinations (the constructor's order of checks)
    for k in 0..(if thorough { 400 } else { 60 }) {
        let mut def = crate::enc::gen_full_definition(rng, false, k % 2 == 0);
        let faults = 1 + rng.below(15);
        if faults & 1 != 0 {
            if let Model::Unigram { scores, .. } = &mut def.model {
                if rng.chance(1, 2) {
                    scores.pop();
                } else {
                    scores.push(-1.0);
                }
            }
        }
        if faults & 2 != 0 {
            let v = def.model.vocab_mut();
            if let Some(t) = v.first().cloned() {
                v.push(Token { id: t.id.wrapping_add(7_000), bytes: t.bytes });
            }
        }
        if faults & 4 != 0 {
            if let Some(sp) = def.specials.first().cloned() {
                def.specials.push(SpecialToken { id: sp.id.wrapping_add(1), ..sp });
            } else {
                let sp = SpecialToken { id: 9_000_000, bytes: b"<dup>".to_vec(), kind: SpecialTokenKind::Control, ident: None, score: 0.0, extract: false };
                def.specials.push(sp.clone());
                def.specials.push(SpecialToken { id: 9_000_001, ..sp });
            }
        }
        if faults & 8 != 0 {
            def.specials.push(SpecialToken { id: 9_000_002, bytes: vec![b'<', 0xff, b'>'], kind: SpecialTokenKind::Priority, ident: None, score: 0.0, extract: k % 4 < 2 });
        }
        out.push(initb_line(&def.to_vec()));
        out.count("constructor_error_definitions");
    }
    out.add("child_crashes", iso.crashes);
    if timing {
        eprintln!("native files: {:?}", t0.elapsed());
    }
}

/// Native load: `Definition::from_slice` (native branch) then `Kitoken::from_definition`.
pub fn initb_answer(bytes: &[u8]) -> (String, String) {
    kitoken::verif::start();
    let r = guarded(|| {
        if !(bytes.len() >= 9 && &bytes[..7] == b"kitoken") {
            return "ERR deser".to_string();
        }
        match Definition::from_slice(bytes) {
            Err(_) => "ERR deser".to_string(),
            Ok(d) => match Kitoken::from_definition(d) {
                Ok(_) => "OK".to_string(),
                Err(e) => {
                    let a = init_answer(&Err(e));
                    a
                }
            },
        }
    });
    let ora = oracle_words();
    (r.unwrap_or_else(|| "PANIC".into()), ora)
}
pub fn initb_line(bytes: &[u8]) -> String {
    let (a, ora) = initb_answer(bytes);
    format!("INITB {}{} :: {}", hex(bytes), ora, a)
}

pub fn run_request(words: &[&str]) -> Option<(String, String)> {
    let args: Vec<&str> = words.iter().copied().filter(|x| !x.starts_with("ORA:")).collect();
    match args[0] {
        "INITB" => {
            let bytes = unhex(args.get(1)?);
            let l = initb_line(&bytes);
            let mut it = l.splitn(2, " :: ");
            Some((it.next()?.to_string(), it.next()?.to_string()))
        }
        "LOADF" => {
            let payload = args.get(3)?;
            if payload.starts_with("big:") {
                return Some((args.join(" "), "SKIPPED-BIG".into()));
            }
            let mut iso = Isolated::new();
            let a = iso.load_payload(args.get(1)?, payload);
            Some((args.join(" "), a))
        }
        _ => None,
    }
}
