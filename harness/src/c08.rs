//! C08 — decoding: DEC ops over generated definitions (with / without continuation prefix, control /
//! priority / unknown specials, vocabulary ids shadowing special ids) and the shipped models; id
//! sequences over the full u32 space.
use crate::defs::*;
use crate::gen::*;
use crate::rng::Rng;
use crate::sink::Sink;
use kitoken::*;

fn gen_def(rng: &mut Rng, with_prefix: bool, with_steps: bool) -> Definition {
    let spec = DefSpec {
        kind: if with_prefix { Kind::WordPiece } else { *rng.pick(&[Kind::BpeBytes, Kind::BpeChars, Kind::Unigram]) },
        alphabet: rng.pick(ALPHABETS).to_vec(),
        holes: 1,
        all_bytes: false,
        merges: rng.range(0, 12),
        eow: None,
        prefix: if with_prefix { Some(rng.pick(&["##", "@@", "▁"]).to_string()) } else { None },
        fallback: vec![Fallback::Unknown, Fallback::Skip],
        unknown: rng.chance(1, 2),
        max_word_chars: 0,
        ties: false,
    };
    let mut def = gen_definition(rng, &spec);
    // a continuation template with EMPTY content (what the Tokenizers converter emits for
    // `continuing_subword_prefix: ""`): "no prefix" for the decoder, i.e. the direct path
    if rng.chance(1, 6) {
        def.config.templates.retain(|t| t.position != InsertionPosition::WordContinuation);
        def.config.templates.push(Template { content: String::new(), position: InsertionPosition::WordContinuation });
    }
    // specials: control, priority; one of them may share its id with a vocabulary entry
    let vocab_ids: Vec<u32> = def.model.vocab().iter().map(|t| t.id).collect();
    let mut next = 9_000_000u32;
    for (i, (text, kind)) in [
        ("<s>", SpecialTokenKind::Control),
        ("</s>", SpecialTokenKind::Control),
        ("<p>", SpecialTokenKind::Priority),
        ("<ctl2>", SpecialTokenKind::Control),
    ]
    .iter()
    .enumerate()
    {
        if rng.chance(1, 4) {
            continue;
        }
        let id = if rng.chance(1, 6) && !vocab_ids.is_empty() { *rng.pick(&vocab_ids) } else { next };
        next += 1;
        def.specials.push(SpecialToken {
            id,
            bytes: text.as_bytes().to_vec(),
            kind: *kind,
            ident: None,
            score: i as f32,
            extract: rng.chance(1, 2),
        });
    }
    if with_steps {
        let c = *rng.pick(&['▁', ' ', '#']);
        for _ in 0..rng.range(1, 3) {
            def.config.decoding.push(match rng.below(4) {
                0 => Decoding::Strip { character: c, left: rng.range(0, 2) as u32, right: rng.range(0, 2) as u32 },
                1 => Decoding::Replace { pattern: DecodingReplacePattern::Character(c), replacement: " ".into() },
                2 => Decoding::Replace { pattern: DecodingReplacePattern::String(" ##".into()), replacement: "".into() },
                _ => Decoding::Collapse { character: ' ' },
            });
        }
    }
    def
}

fn random_ids(rng: &mut Rng, valid: &[u32], max_len: usize) -> Vec<u32> {
    let n = if rng.chance(1, 30) { rng.range(1000, 4000) } else { rng.range(0, max_len) };
    (0..n)
        .map(|_| match rng.below(20) {
            0 => u32::MAX,
            1 => rng.next() as u32,
            2 => valid.iter().copied().max().unwrap_or(0).wrapping_add(1 + rng.below(3) as u32),
            3 => 0,
            _ => {
                if valid.is_empty() {
                    rng.below(50) as u32
                } else {
                    *rng.pick(valid)
                }
            }
        })
        .collect()
}

pub fn gen(rng: &mut Rng, thorough: bool, out: &mut Sink) {
    let ndefs = if thorough { 400 } else { 60 };
    let nseq = if thorough { 400 } else { 80 };
    let mut slot = 0;
    for d in 0..ndefs {
        let def = gen_def(rng, d % 2 == 1, d % 4 >= 2);
        let mut lines = Vec::new();
        let tk = load(slot, "generated", def, &mut lines);
        slot += 1;
        if tk.tok.is_none() {
            out.count("defs_failed_init");
            out.group(lines);
            continue;
        }
        let mut valid: Vec<u32> = tk.def.model.vocab().iter().map(|t| t.id).collect();
        valid.extend(tk.def.specials.iter().map(|s| s.id));
        for _ in 0..nseq {
            let ids = random_ids(rng, &valid, 12);
            for s in [false, true] {
                lines.push(dec_line(&tk, &ids, s).unwrap());
            }
        }
        out.count(if d % 2 == 1 { "defs_with_prefix" } else { "defs_direct" });
        out.group(lines);
    }
    // clean-up at its boundary: a Strip step with both sides > 0 on decoded text that consists of the strip
    // character only (fewer copies than left + right, exactly as many, more), control tokens around it filtered
    let nstrip = if thorough { 200 } else { 40 };
    for d in 0..nstrip {
        let mut def = gen_def(rng, d % 2 == 1, false);
        let c = *rng.pick(&['▁', ' ', '#', 'é']);
        let (l, r) = (rng.range(1, 4) as u32, rng.range(1, 4) as u32);
        def.config.decoding = vec![Decoding::Strip { character: c, left: l, right: r }];
        if rng.chance(1, 3) {
            def.config.decoding.push(Decoding::Collapse { character: c });
        }
        if rng.chance(1, 2) {
            // a step that acts on an EMPTY text too, after a step that may have removed everything: every
            // configured step runs
            def.config.decoding.push(Decoding::Extend { character: '"', left: 1, right: 1, pad: rng.chance(1, 2) });
        }
        let cid = 8_000_000u32;
        let cbytes = c.to_string().into_bytes();
        let mut lines = Vec::new();
        let existing = def.model.vocab().iter().find(|t| t.bytes == cbytes).map(|t| t.id);
        let cid = match existing {
            Some(id) => id,
            None => {
                match &mut def.model {
                    Model::BytePair { vocab, .. } | Model::Unigram { vocab, .. } | Model::WordPiece { vocab, .. } => vocab.push(Token { id: cid, bytes: cbytes.clone() }),
                    #[allow(unreachable_patterns)]
                    _ => {}
                }
                if let Model::Unigram { scores, .. } = &mut def.model {
                    scores.push(-1.0);
                }
                cid
            }
        };
        let tk = load(slot, "strip-boundary", def, &mut lines);
        slot += 1;
        if tk.tok.is_none() {
            out.count("defs_failed_init");
            out.group(lines);
            continue;
        }
        let controls: Vec<u32> = tk.def.specials.iter().filter(|s| s.kind == SpecialTokenKind::Control).map(|s| s.id).collect();
        let other: Vec<u32> = tk.def.model.vocab().iter().filter(|t| t.id != cid).map(|t| t.id).take(3).collect();
        for k in 0..=(l + r + 1) as usize {
            let mut ids: Vec<u32> = vec![cid; k];
            for s in [false, true] {
                lines.push(dec_line(&tk, &ids, s).unwrap());
            }
            if let Some(&ctl) = controls.first() {
                ids.insert(0, ctl);
                ids.push(ctl);
                for s in [false, true] {
                    lines.push(dec_line(&tk, &ids, s).unwrap());
                }
            }
            if let Some(&o) = other.first() {
                let mut mixed: Vec<u32> = vec![cid; k];
                mixed.insert(k / 2, o);
                lines.push(dec_line(&tk, &mixed, false).unwrap());
            }
        }
        out.count("defs_strip_boundary");
        out.group(lines);
    }
    // shipped models
    let nship = if thorough { 300 } else { 25 };
    for (name, path) in shipped_models() {
        let def = match Definition::from_file(&path) {
            Ok(d) => d,
            Err(_) => continue,
        };
        let mut lines = Vec::new();
        let tk = load(slot, &name, def, &mut lines);
        slot += 1;
        let mut valid: Vec<u32> = tk.def.model.vocab().iter().map(|t| t.id).collect();
        valid.extend(tk.def.specials.iter().map(|s| s.id));
        for _ in 0..nship {
            let ids = random_ids(rng, &valid, 24);
            for s in [false, true] {
                if let Some(l) = dec_line(&tk, &ids, s) {
                    lines.push(l);
                }
            }
        }
        // a long sequence (thorough): 10^4 ids (the list-based model appends quadratically; 10^5 ids on each of the
        // 24 shipped models took over half an hour of driver time)
        if thorough {
            let ids: Vec<u32> = (0..10_000).map(|_| *rng.pick(&valid)).collect();
            if let Some(l) = dec_line(&tk, &ids, true) {
                lines.push(l);
            }
        }
        out.count("shipped_models");
        out.group(lines);
    }
}
