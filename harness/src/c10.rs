//! C10 — SPLIT ops: six behaviours x character / string / regex patterns x texts; chains; Unicode script.
use crate::defs::*;
use crate::gen::*;
use crate::rng::Rng;
use crate::sink::Sink;
use crate::util::*;
use kitoken::*;

pub fn run_split(steps: &[Split], text: &str) -> (String, String) {
    let config = Configuration { split: steps.to_vec(), ..Configuration::default() };
    kitoken::verif::start();
    let r = guarded(|| config.split(text));
    let ora = oracle_words();
    match r {
        Some(rs) => (format!("OK {}", ranges(&rs)), ora),
        None => ("PANIC".into(), ora),
    }
}
pub fn split_line(steps: &[Split], text: &str) -> String {
    let enc = steps.iter().map(split_enc).collect::<Vec<_>>();
    let (a, ora) = run_split(steps, text);
    format!("SPLIT {} {}{} :: {}", join_or_dash(&enc), hex(text.as_bytes()), ora, a)
}

const BEHAVIORS: [SplitBehavior; 6] = [
    SplitBehavior::Match,
    SplitBehavior::Remove,
    SplitBehavior::Isolate,
    SplitBehavior::Merge,
    SplitBehavior::MergeLeft,
    SplitBehavior::MergeRight,
];

/// Regex patterns incl. empty-match-capable and look-around ones used by the converters.
const REGEXES: &[&str] = &[
    r" ",
    r"▁+",
    r"\s+",
    r"\s+(?!\S)",
    r" ?",
    r"a*",
    r"\p{N}{1,3}",
    r"\w+|[^\w\s]+",
    r"(?=é)",
    r"'(?:[sdmt]|ll|ve|re)|\s?\p{L}+|\s?\p{N}+|\s?[^\s\p{L}\p{N}]+",
    r"[^\r\n\p{L}\p{N}]?+\p{L}+|\p{N}{1,3}| ?[^\s\p{L}\p{N}]++[\r\n]*|\s*[\r\n]|\s+(?!\S)",
    r"é|語",
    r"\p{M}",
];

pub fn gen(rng: &mut Rng, thorough: bool, out: &mut Sink) {
    // exhaustive: all strings up to length 5 (7) over an alphabet mixing 1-, 2-, 3- and 4-byte characters
    let alphabet = ['a', ' ', 'é', '▁', '😀'];
    let lmax = if thorough { 7 } else { 5 };
    let alpha_small: Vec<char> = if thorough { alphabet[..4].to_vec() } else { alphabet.to_vec() };
    let strings = all_strings(&alpha_small, lmax);
    let char_pats: Vec<SplitPattern> = [' ', 'é', '▁', '😀'].iter().map(|c| SplitPattern::Character(*c)).collect();
    let str_pats: Vec<SplitPattern> = ["", " ", "é", "▁", "a ", "  ", "é▁", "aa"].iter().map(|s| SplitPattern::String(s.to_string())).collect();
    let re_pats: Vec<SplitPattern> = [r"▁+", r" ", r"\s+(?!\S)", r"a*", r"(?=é)"]
        .iter()
        .map(|p| SplitPattern::Regex(Regex::new(p).unwrap()))
        .collect();
    let mut n = 0u64;
    for s in &strings {
        for pats in [&char_pats, &str_pats, &re_pats] {
            for p in pats.iter() {
                for b in BEHAVIORS {
                    out.push(split_line(&[Split::Pattern { pattern: p.clone(), behavior: b }], s));
                    n += 1;
                }
            }
        }
    }
    out.add("exhaustive_cases", n);
    out.exhaustive.push(format!(
        "SPLIT: all strings up to length {} over {:?} x 6 behaviours x {} character, {} string (incl. the empty string) and {} regex patterns",
        lmax,
        alpha_small,
        char_pats.len(),
        str_pats.len(),
        re_pats.len()
    ));
    // exhaustive chains of two splits: every (pattern, behaviour) pair twice x all strings up to length 4 (5)
    let chain_alpha = ['a', ' ', 'é'];
    let chain_strings = all_strings(&chain_alpha, if thorough { 5 } else { 4 });
    let chain_pats: Vec<SplitPattern> = vec![
        SplitPattern::Character(' '),
        SplitPattern::Character('é'),
        SplitPattern::String("a".into()),
        SplitPattern::Regex(Regex::new(r"\s+").unwrap()),
    ];
    let mut stages: Vec<Split> = Vec::new();
    for p in &chain_pats {
        for b in BEHAVIORS {
            stages.push(Split::Pattern { pattern: p.clone(), behavior: b });
        }
    }
    let mut nchain = 0u64;
    for s1 in &stages {
        for s2 in &stages {
            for t in &chain_strings {
                out.push(split_line(&[s1.clone(), s2.clone()], t));
                nchain += 1;
            }
        }
    }
    out.add("exhaustive_chain_cases", nchain);
    out.exhaustive.push(format!(
        "SPLIT chains: every ordered pair of {} stages (4 patterns x 6 behaviours) x all strings up to length {} over {:?}",
        stages.len(),
        if thorough { 5 } else { 4 },
        chain_alpha
    ));
    // random: longer texts, all regexes, chains up to 3, unicode script
    let nrand = if thorough { 60000 } else { 6000 };
    for _ in 0..nrand {
        let text = if rng.chance(1, 2) { random_text(rng, 6) } else { random_string(rng, &alphabet, 40) };
        let nsteps = match rng.below(10) {
            0..=5 => 1,
            6..=7 => 2,
            8 => 3,
            _ => 0,
        };
        let mut steps = Vec::new();
        for _ in 0..nsteps {
            let pattern = match rng.below(4) {
                0 => SplitPattern::Character(*rng.pick(&[' ', 'é', '▁', '😀', 'a', '\n'])),
                1 => SplitPattern::String(rng.pick(&["", " ", "é", "▁", "a ", "  ", "\r\n", "语"]).to_string()),
                _ => SplitPattern::Regex(Regex::new(*rng.pick(REGEXES)).unwrap()),
            };
            if rng.chance(1, 12) {
                steps.push(Split::UnicodeScript);
                out.count("unicode_script_steps");
            } else {
                steps.push(Split::Pattern { pattern, behavior: *rng.pick(&BEHAVIORS) });
            }
        }
        out.count(&format!("chain_len_{}", nsteps));
        out.push(split_line(&steps, &text));
    }
    // unicode script over scalar classes
    for _ in 0..(if thorough { 20000 } else { 1500 }) {
        let k = rng.range(1, 8);
        let text: String = (0..k).map(|_| random_scalar(rng)).collect();
        out.push(split_line(&[Split::UnicodeScript], &text));
    }
}

pub fn run_request(words: &[&str]) -> Option<(String, String)> {
    let args: Vec<&str> = words.iter().copied().filter(|x| !x.starts_with("ORA:")).collect();
    let steps = crate::parse::parse_list(args.get(1)?, crate::parse::parse_split)?;
    let text = String::from_utf8(unhex(args.get(2)?)).ok()?;
    let l = split_line(&steps, &text);
    let mut it = l.splitn(2, " :: ");
    Some((it.next()?.to_string(), it.next()?.to_string()))
}
