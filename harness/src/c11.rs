//! C11 — NORM ops: each normalization step x parameters x texts; sequences; conditionals at positions.
use crate::defs::*;
use crate::gen::*;
use crate::rng::Rng;
use crate::sink::Sink;
use crate::util::*;
use kitoken::*;

pub fn run_norm(steps: &[Normalization], start: usize, to_end: bool, text: &str) -> (String, String) {
    let config = Configuration { normalization: steps.to_vec(), ..Configuration::default() };
    kitoken::verif::start();
    let r = guarded(|| {
        let mut t = std::borrow::Cow::Borrowed(text);
        config.normalize(&mut t, start..(if to_end { usize::MAX } else { start + text.len() }));
        t.into_owned()
    });
    let ora = oracle_words();
    match r {
        Some(t) => (format!("OK {}", hex(t.as_bytes())), ora),
        None => ("PANIC".into(), ora),
    }
}
pub fn norm_line(steps: &[Normalization], start: usize, to_end: bool, text: &str) -> String {
    let enc = steps.iter().map(norm_enc).collect::<Vec<_>>();
    let (a, ora) = run_norm(steps, start, to_end, text);
    format!("NORM {} {} {} {}{} :: {}", join_or_dash(&enc), start, to_end as u8, hex(text.as_bytes()), ora, a)
}

fn random_step(rng: &mut Rng, depth: usize) -> Normalization {
    let chars = ['a', ' ', 'é', '▁', '😀', 'b'];
    let c = *rng.pick(&chars);
    let count = |rng: &mut Rng| -> u32 { *rng.pick(&[0u32, 1, 2, 3, u32::MAX]) };
    match rng.below(if depth > 0 { 13 } else { 12 }) {
        0 => Normalization::Strip { character: c, left: count(rng), right: count(rng) },
        1 => Normalization::Extend { character: c, left: rng.range(0, 3) as u32, right: rng.range(0, 3) as u32, pad: rng.chance(1, 2) },
        2 => Normalization::Collapse { character: c },
        3 => Normalization::Replace { pattern: NormalizationReplacePattern::Character(c), replacement: rng.pick(&["", "▁", "xy"]).to_string() },
        4 => Normalization::Replace {
            pattern: NormalizationReplacePattern::String(rng.pick(&["", " ", "aa", "a b", "é", "▁▁"]).to_string()),
            replacement: rng.pick(&["", "▁", "a", "ab"]).to_string(),
        },
        5 => Normalization::Replace {
            pattern: NormalizationReplacePattern::Regex(Regex::new(*rng.pick(&[r"\s+", r"(a)(b)?", r"^\s+", r"\s+$", r"\p{M}", r"[\t\n\r]"])).unwrap()),
            replacement: rng.pick(&["", " ", "$1", "<$1>"]).to_string(),
        },
        6 => Normalization::Prepend { prepend: rng.pick(&["", "▁", "ab"]).to_string() },
        7 => Normalization::Append { append: rng.pick(&["", "▁", "é"]).to_string() },
        8 => Normalization::NMT,
        9 => Normalization::CaseFold { upper: rng.chance(1, 3) },
        10 | 11 => Normalization::Unicode {
            scheme: *rng.pick(&[UnicodeNormalization::NFC, UnicodeNormalization::NFD, UnicodeNormalization::NFKC, UnicodeNormalization::NFKD]),
        },
        _ => Normalization::Conditional {
            condition: if rng.chance(1, 2) { NormalizationCondition::StartOfText } else { NormalizationCondition::EndOfText },
            normalization: Box::new(random_step(rng, depth - 1)),
        },
    }
}

pub fn gen(rng: &mut Rng, thorough: bool, out: &mut Sink) {
    // exhaustive: short strings over a multi-byte alphabet x per-character steps x parameters
    let alpha = ['a', ' ', 'é', '▁'];
    let lmax = if thorough { 6 } else { 4 };
    let strings = all_strings(&alpha, lmax);
    let counts = [0u32, 1, 2, u32::MAX];
    for s in &strings {
        for &c in &[' ', 'é', '▁'] {
            for &l in &counts {
                for &r in &counts {
                    out.push(norm_line(&[Normalization::Strip { character: c, left: l, right: r }], 0, true, s));
                    if l != u32::MAX && r != u32::MAX {
                        for pad in [false, true] {
                            out.push(norm_line(&[Normalization::Extend { character: c, left: l, right: r, pad }], 0, true, s));
                        }
                    }
                }
            }
            out.push(norm_line(&[Normalization::Collapse { character: c }], 0, true, s));
            out.push(norm_line(
                &[Normalization::Replace { pattern: NormalizationReplacePattern::Character(c), replacement: "▁".into() }],
                0,
                true,
                s,
            ));
        }
        for pat in ["", "a", "aa", " a", "é"] {
            for rep in ["", "x", "aa"] {
                out.push(norm_line(
                    &[Normalization::Replace { pattern: NormalizationReplacePattern::String(pat.into()), replacement: rep.into() }],
                    0,
                    true,
                    s,
                ));
            }
        }
    }
    out.exhaustive.push(format!("NORM: all strings up to length {} over {:?} x Strip/Extend/Collapse/Replace parameters", lmax, alpha));
    // per-character steps over scalar values
    let per_char: Vec<Normalization> = vec![
        Normalization::NMT,
        Normalization::CaseFold { upper: false },
        Normalization::CaseFold { upper: true },
        Normalization::Unicode { scheme: UnicodeNormalization::NFC },
        Normalization::Unicode { scheme: UnicodeNormalization::NFD },
        Normalization::Unicode { scheme: UnicodeNormalization::NFKC },
        Normalization::Unicode { scheme: UnicodeNormalization::NFKD },
    ];
    if thorough {
        for cp in 0..=0x10ffffu32 {
            if let Some(c) = char::from_u32(cp) {
                let s = c.to_string();
                out.push(norm_line(&[Normalization::NMT], 0, true, &s));
                if cp % 8 == 0 {
                    for st in &per_char[1..] {
                        out.push(norm_line(&[st.clone()], 0, true, &s));
                    }
                    out.push(norm_line(&[Normalization::Collapse { character: c }], 0, true, &format!("{}{}a{}", c, c, c)));
                    out.push(norm_line(&[Normalization::Strip { character: c, left: 1, right: 2 }], 0, true, &format!("{}{}a{}", c, c, c)));
                    out.push(norm_line(&[Normalization::Extend { character: c, left: 2, right: 1, pad: true }], 0, true, &format!("{}a", c)));
                }
            }
        }
        out.exhaustive.push("NORM: NMT over every Unicode scalar value; other per-character steps over every 8th".into());
    } else {
        // all NMT-relevant code points and their neighbours, plus a sample of everything else
        let mut cps: Vec<u32> = (0..=0xa0).collect();
        for c in [0x1680u32, 0x200b, 0x200c, 0x200d, 0x200e, 0x200f, 0x2010, 0x2027, 0x2028, 0x2029, 0x202a, 0x2580, 0x2581, 0x2582, 0xfefe, 0xfeff, 0xfffc, 0xfffd, 0xfffe] {
            cps.push(c);
        }
        for cp in cps {
            if let Some(c) = char::from_u32(cp) {
                out.push(norm_line(&[Normalization::NMT], 0, true, &format!("a{}b", c)));
            }
        }
        for _ in 0..6000 {
            let c = random_scalar(rng);
            let st = rng.pick(&per_char).clone();
            out.push(norm_line(&[st], 0, true, &c.to_string()));
            if rng.chance(1, 4) {
                out.push(norm_line(&[Normalization::Collapse { character: c }], 0, true, &format!("{}{}a{}", c, c, c)));
                out.push(norm_line(&[Normalization::Strip { character: c, left: 1, right: 2 }], 0, true, &format!("{}{}a{}", c, c, c)));
                out.push(norm_line(&[Normalization::Extend { character: c, left: 2, right: 1, pad: true }], 0, true, &format!("{}a", c)));
            }
        }
    }
    // a step that can empty the text followed by steps that add to it: every step runs, in order
    let shrinkers = |c: char| -> Vec<Normalization> {
        vec![
            Normalization::Strip { character: c, left: u32::MAX, right: u32::MAX },
            Normalization::Strip { character: c, left: 2, right: 0 },
            Normalization::Replace { pattern: c.to_string().as_str().into(), replacement: "".into() },
            Normalization::Replace { pattern: c.into(), replacement: "".into() },
        ]
    };
    let growers: Vec<Normalization> = vec![
        Normalization::Prepend { prepend: "▁".into() },
        Normalization::Append { append: "é".into() },
        Normalization::Extend { character: '_', left: 1, right: 1, pad: true },
        Normalization::Extend { character: ' ', left: 0, right: 2, pad: false },
        Normalization::Conditional { condition: NormalizationCondition::StartOfText, normalization: Box::new(Normalization::Prepend { prepend: "▁".into() }) },
        Normalization::Collapse { character: ' ' },
        Normalization::NMT,
    ];
    for c in [' ', 'é', '▁'] {
        for sh in shrinkers(c) {
            for g in &growers {
                for g2 in &growers[..3] {
                    for k in 0..4 {
                        let mut text: String = std::iter::repeat(c).take(k).collect();
                        for (start, to_end) in [(0, true), (3, false)] {
                            out.push(norm_line(&[sh.clone(), g.clone()], start, to_end, &text));
                            out.push(norm_line(&[sh.clone(), g.clone(), g2.clone()], start, to_end, &text));
                        }
                        text.push('a');
                        out.push(norm_line(&[sh.clone(), g.clone()], 0, true, &text));
                        out.count("shrink_then_grow");
                    }
                }
            }
        }
    }
    // context-sensitive case mapping and normalization: words, not single characters
    for w in ["ΟΔΥΣΣΕΥΣ", "ΣΑΣ ΣΑΣ", "Σ", "αΣ", "Σα", "ΑΣ.", "İstanbul", "STRASSE", "straße", "ǅ", "ŉ", "ﬁn", "e\u{0301}\u{0323}", "\u{1100}\u{1161}\u{11a8}", "Å\u{0301}"] {
        for st in &per_char[1..] {
            out.push(norm_line(&[st.clone()], 0, true, w));
        }
        out.count("context_sensitive_words");
    }
    // sequences of up to 6 steps, conditionals, positions
    let n = if thorough { 80000 } else { 8000 };
    for _ in 0..n {
        let k = match rng.below(6) {
            0 | 1 => 1,
            2 => 2,
            3 => 3,
            4 => rng.range(4, 6),
            _ => 0,
        };
        let steps: Vec<Normalization> = (0..k).map(|_| random_step(rng, 2)).collect();
        let text = if rng.chance(1, 3) { random_text(rng, 5) } else { random_string(rng, &['a', 'b', ' ', 'é', '▁', 'A', '\u{0301}', '\n', 'ﬁ'], 14) };
        let start = if rng.chance(1, 2) { 0 } else { rng.range(1, 30) };
        let to_end = rng.chance(1, 2);
        out.count(&format!("steps_{}", k));
        out.push(norm_line(&steps, start, to_end, &text));
    }
}

pub fn run_request(words: &[&str]) -> Option<(String, String)> {
    let args: Vec<&str> = words.iter().copied().filter(|x| !x.starts_with("ORA:")).collect();
    let steps = crate::parse::parse_list(args.get(1)?, crate::parse::parse_normalization)?;
    let start: usize = args.get(2)?.parse().ok()?;
    let to_end = *args.get(3)? == "1";
    let text = String::from_utf8(unhex(args.get(4)?)).ok()?;
    let l = norm_line(&steps, start, to_end, &text);
    let mut it = l.splitn(2, " :: ");
    Some((it.next()?.to_string(), it.next()?.to_string()))
}
