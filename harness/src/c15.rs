//! C15 — converters keep every source token, id, score and priority; auto-detection agrees.
//!
//! Every source (the shipped foreign-format files and generated ones) is converted by the explicit
//! converter (DEF lines carry the result to the driver) and parsed *independently* here (base64 /
//! serde_json::Value / prost, none of the converter's own types): one `SRCT` line per source token.
//! `KEEPS` asks the driver for the Lean verdict (`Spec.keepsCheck`). `CONVTT` / `CONVTK` compare the
//! Lean models of the Tiktoken and Tekken converters with the implementation's result, `BYTETAB` and
//! `BYTEPIECE` the placeholder table and `<0xNN>` parsing. `IMPLEQ detect` compares auto-detection with
//! the explicit converter and names any earlier loader in the chain that also accepts the data.
use crate::defs::*;
use crate::rng::Rng;
use crate::sink::Sink;
use crate::util::*;
use base64::Engine;
use kitoken::*;
use serde_json::Value;

#[derive(Clone, Debug)]
pub struct Src {
    id: u32,
    bytes: Vec<u8>,
    unused: bool,
    score: Option<u32>,
    prio: Option<usize>,
    kind: Option<char>,
}

fn b64(s: &str) -> Option<Vec<u8>> {
    base64::engine::general_purpose::STANDARD.decode(s).ok()
}

/// The GPT-2 byte <-> character table, written from its published description.
fn gpt2_table() -> Vec<u32> {
    let mut t = vec![0u32; 256];
    let mut n = 0;
    for b in 0..256u32 {
        let direct = (b >= b'!' as u32 && b <= b'~' as u32) || (b >= 0xA1 && b <= 0xAC) || (b >= 0xAE && b <= 0xFF);
        if direct {
            t[b as usize] = b;
        } else {
            t[b as usize] = 256 + n;
            n += 1;
        }
    }
    t
}

fn byte_rune(b: &[u8]) -> Option<u8> {
    if b.len() == 6 && b.starts_with(b"<0x") && b.ends_with(b">") {
        let h = std::str::from_utf8(&b[3..5]).ok()?;
        if h.bytes().all(|c| c.is_ascii_hexdigit()) {
            return u8::from_str_radix(h, 16).ok();
        }
    }
    None
}

fn parse_tiktoken(data: &[u8]) -> Option<Vec<Src>> {
    let mut out = Vec::new();
    for (k, line) in data.split(|b| *b == b'\n').map(|l| l.strip_suffix(b"\r").unwrap_or(l)).filter(|l| !l.is_empty()).enumerate() {
        let line = std::str::from_utf8(line).ok()?;
        let (l, r) = line.split_once(' ')?;
        out.push(Src { id: r.parse().ok()?, bytes: b64(l)?, unused: false, score: None, prio: Some(k), kind: None });
    }
    Some(out)
}

struct TekkenSrc {
    version: String,
    num_special: Option<usize>,
    vocab_size: Option<usize>,
    entries: Vec<(u64, Vec<u8>)>,
}

fn parse_tekken(data: &[u8]) -> Option<TekkenSrc> {
    let v: Value = serde_json::from_slice(data).ok()?;
    let c = &v["config"];
    let mut entries = Vec::new();
    for e in v["vocab"].as_array()? {
        entries.push((e["rank"].as_u64()?, b64(e["token_bytes"].as_str()?)?));
    }
    Some(TekkenSrc {
        version: c["version"].as_str()?.to_string(),
        num_special: c["default_num_special_tokens"].as_u64().map(|x| x as usize),
        vocab_size: c["default_vocab_size"].as_u64().map(|x| x as usize),
        entries,
    })
}

fn tekken_src(t: &TekkenSrc) -> Vec<Src> {
    // ids are rank + number of special tokens (at least the 14 named ones); tokens beyond the declared
    // vocabulary size are outside the vocabulary ("unused")
    let ns = t.num_special.unwrap_or(14).max(14);
    let take = t.vocab_size.unwrap_or(t.entries.len()).saturating_sub(ns);
    t.entries
        .iter()
        .enumerate()
        .map(|(i, (r, b))| Src { id: (*r as u32).wrapping_add(ns as u32), bytes: b.clone(), unused: i >= take, score: None, prio: Some(*r as usize), kind: None })
        .collect()
}

fn parse_sentencepiece(data: &[u8]) -> Option<Vec<Src>> {
    use prost::Message;
    use sentencepiece_model::{ModelProto, Type};
    let m = ModelProto::decode(data).ok()?;
    let unigram = m.trainer_spec.as_ref().map(|t| t.model_type() as i32 == 1).unwrap_or(true);
    let mut out = Vec::new();
    let mut seen_unknown = false;
    // the unknown token is the piece the trainer spec names, when it names one
    let declared_unk = m.trainer_spec.as_ref().and_then(|t| t.unk_id);
    for (i, p) in m.pieces.iter().enumerate() {
        let text = p.piece.clone()?;
        let ty = p.r#type();
        let (bytes, kind, unused) = match ty {
            // a BYTE piece that is not of the exact form `<0xNN>` is not a byte piece of the source: no claim
            Type::Byte => match byte_rune(text.as_bytes()) {
                Some(b) => (vec![b], None, false),
                None => (text.into_bytes(), None, true),
            },
            Type::Control => (text.into_bytes(), Some('C'), false),
            Type::UserDefined => (text.into_bytes(), Some('P'), false),
            Type::Unknown => {
                // only the first unknown piece is the unknown token; further ones are ignored by design
                let first = !seen_unknown && declared_unk.map(|u| u == i as i32).unwrap_or(true);
                seen_unknown = true;
                (text.into_bytes(), if first { Some('U') } else { None }, !first)
            }
            Type::Unused => (text.into_bytes(), None, true),
            _ => (text.into_bytes(), None, false),
        };
        out.push(Src { id: i as u32, bytes, unused, score: if unigram && kind.is_none() { Some(p.score().to_bits()) } else { None }, prio: None, kind });
    }
    Some(out)
}

fn has_type(v: &Value, ty: &str) -> bool {
    match v {
        Value::Object(m) => m.get("type").and_then(|t| t.as_str()) == Some(ty) || m.values().any(|x| has_type(x, ty)),
        Value::Array(a) => a.iter().any(|x| has_type(x, ty)),
        _ => false,
    }
}

fn parse_tokenizers(data: &[u8]) -> Option<Vec<Src>> {
    let v: Value = serde_json::from_slice(data).ok()?;
    let model = &v["model"];
    let ty = model["type"].as_str().map(|s| s.to_string()).unwrap_or_else(|| if model.get("merges").is_some() { "BPE".into() } else if model["vocab"].is_array() { "Unigram".into() } else { "WordPiece".into() });
    let byte_level = has_type(&v["pre_tokenizer"], "ByteLevel");
    let byte_runes = model["byte_fallback"].as_bool().unwrap_or(false) || has_type(&v["decoder"], "ByteFallback");
    let table = gpt2_table();
    let decode = |text: &str| -> Vec<u8> {
        let mut b: Vec<u8> = if byte_level {
            let mut r = Vec::new();
            for c in text.chars() {
                match table.iter().position(|&cp| cp == c as u32) {
                    Some(i) => r.push(i as u8),
                    None => r.extend(c.to_string().as_bytes()),
                }
            }
            r
        } else {
            text.as_bytes().to_vec()
        };
        if byte_runes {
            if let Some(x) = byte_rune(&b) {
                b = vec![x];
            }
        }
        b
    };
    let unk_token = model["unk_token"].as_str().map(|s| s.to_string());
    let unk_id = model["unk_id"].as_u64().map(|x| x as u32);
    let mut out = Vec::new();
    let mut added_texts = std::collections::HashSet::new();
    if let Some(added) = v["added_tokens"].as_array() {
        for a in added {
            let id = a["id"].as_u64()? as u32;
            let content = a["content"].as_str()?.to_string();
            let special = a["special"].as_bool().unwrap_or(false);
            let kind = if (ty == "Unigram" && unk_id == Some(id)) || (ty != "Unigram" && unk_token.as_deref() == Some(content.as_str())) {
                'U'
            } else if special {
                'C'
            } else {
                'P'
            };
            added_texts.insert(content.clone());
            out.push(Src { id, bytes: content.into_bytes(), unused: false, score: None, prio: None, kind: Some(kind) });
        }
    }
    // an added token given twice: the later entry replaces the earlier one
    let mut last = std::collections::HashMap::new();
    for (i, s) in out.iter().enumerate() {
        last.insert(s.bytes.clone(), i);
    }
    out = out.iter().enumerate().filter(|(i, s)| last[&s.bytes] == *i).map(|(_, s)| s.clone()).collect();
    let mut prio = std::collections::HashMap::new();
    if let Some(merges) = model["merges"].as_array() {
        for (i, m) in merges.iter().enumerate() {
            let joined = match m {
                Value::String(s) => {
                    let mut it = s.splitn(2, ' ');
                    format!("{}{}", it.next()?, it.next()?)
                }
                Value::Array(a) => format!("{}{}", a.first()?.as_str()?, a.get(1)?.as_str()?),
                _ => return None,
            };
            prio.insert(joined, i);
        }
    }
    match &model["vocab"] {
        Value::Object(m) => {
            for (text, id) in m {
                if added_texts.contains(text) {
                    continue;
                }
                out.push(Src { id: id.as_u64()? as u32, bytes: decode(text), unused: false, score: None, prio: prio.get(text).copied(), kind: None });
            }
        }
        Value::Array(a) => {
            for (i, e) in a.iter().enumerate() {
                let text = e.get(0)?.as_str()?;
                if added_texts.contains(text) {
                    continue;
                }
                let score = e.get(1)?.as_f64()? as f32;
                out.push(Src { id: i as u32, bytes: decode(text), unused: false, score: Some(score.to_bits()), prio: None, kind: None });
            }
        }
        _ => return None,
    }
    Some(out)
}

/// The parsed fields of a Tokenizers JSON source for the Lean model of the converter's vocabulary path
/// (`HFA` / `HFV` / `HFM` lines) and the `CONVHF` request. `None`: not expressible (duplicate ids among
/// ordinary tokens make the converter's order depend on hash iteration) or an unsupported model kind.
fn hf_model_lines(slot: usize, data: &[u8], lines: &mut Vec<String>) -> Option<()> {
    let v: Value = serde_json::from_slice(data).ok()?;
    let model = &v["model"];
    let ty = model["type"].as_str().map(|s| s.to_string()).unwrap_or_else(|| if model.get("merges").is_some() { "BPE".into() } else if model["vocab"].is_array() { "Unigram".into() } else { "WordPiece".into() });
    let byte_chars = has_type(&v["pre_tokenizer"], "ByteLevel");
    let byte_runes = model["byte_fallback"].as_bool().unwrap_or(false) || has_type(&v["decoder"], "ByteFallback");
    let mut out = Vec::new();
    let mut added_texts = std::collections::HashSet::new();
    if let Some(added) = v["added_tokens"].as_array() {
        for a in added {
            let content = a["content"].as_str()?;
            added_texts.insert(content.to_string());
            out.push(format!(
                "HFA {} {} {} {} {}",
                slot,
                a["id"].as_u64()?,
                hex(content.as_bytes()),
                a["special"].as_bool().unwrap_or(false) as u8,
                a["normalized"].as_bool().unwrap_or(false) as u8
            ));
        }
    }
    // the list-based model is quadratic in the vocabulary size: small sources only (the large shipped ones
    // are judged by KEEPS)
    let n = model["vocab"].as_object().map(|m| m.len()).or_else(|| model["vocab"].as_array().map(|a| a.len())).unwrap_or(0);
    if n > 3000 {
        return None;
    }
    let mut ids = std::collections::HashSet::new();
    let (kind, unk) = match ty.as_str() {
        "BPE" | "WordPiece" => {
            for (text, id) in model["vocab"].as_object()? {
                let id = id.as_u64()?;
                if !added_texts.contains(text) && !ids.insert(id) {
                    return None;
                }
                out.push(format!("HFV {} {} {} 0", slot, hex(text.as_bytes()), id));
            }
            if ty == "BPE" {
                for m in model["merges"].as_array()? {
                    let joined = match m {
                        Value::String(s) => {
                            let mut it = s.splitn(2, ' ');
                            format!("{}{}", it.next()?, it.next()?)
                        }
                        Value::Array(a) => format!("{}{}", a.first()?.as_str()?, a.get(1)?.as_str()?),
                        _ => return None,
                    };
                    out.push(format!("HFM {} {}", slot, hex(joined.as_bytes())));
                }
                ("bpe", model["unk_token"].as_str().map(|u| hex(u.as_bytes())).unwrap_or("-".into()))
            } else {
                ("wordpiece", hex(model["unk_token"].as_str()?.as_bytes()))
            }
        }
        "Unigram" => {
            for e in model["vocab"].as_array()? {
                let score = e.get(1)?.as_f64()? as f32;
                out.push(format!("HFV {} {} 0 {}", slot, hex(e.get(0)?.as_str()?.as_bytes()), score.to_bits()));
            }
            ("unigram", model["unk_id"].as_u64().map(|u| u.to_string()).unwrap_or("-".into()))
        }
        _ => return None,
    };
    lines.extend(out);
    lines.push(format!("CONVHF {} {} {} {} {} :: OK", slot, kind, unk, byte_chars as u8, byte_runes as u8));
    Some(())
}

/// The parsed fields of a SentencePiece source for the Lean model of the converter's vocabulary path
/// (`SPT` / `SPP` lines) and the `CONVSP` request; small sources only (the list-based model is quadratic).
fn sp_model_lines(slot: usize, data: &[u8], lines: &mut Vec<String>) -> Option<()> {
    use prost::Message;
    use sentencepiece_model::{ModelProto, Type};
    let m = ModelProto::decode(data).ok()?;
    if m.pieces.len() > 3000 {
        return None;
    }
    if let Some(t) = &m.trainer_spec {
        lines.push(format!(
            "SPT {} {} {} {} {} {} {} {} {} {} {}",
            slot,
            t.unk_id() as u32,
            t.bos_id() as u32,
            t.eos_id() as u32,
            t.pad_id() as u32,
            hex(t.unk_piece().as_bytes()),
            hex(t.bos_piece().as_bytes()),
            hex(t.eos_piece().as_bytes()),
            hex(t.pad_piece().as_bytes()),
            hex(t.unk_surface().as_bytes()),
            (t.model_type() as i32 == 2) as u8
        ));
        // other model types (word, char) are rejected by the converter
        if t.model_type() as i32 != 1 && t.model_type() as i32 != 2 {
            return None;
        }
    }
    for p in &m.pieces {
        let ty = match p.r#type() {
            Type::Normal => "N",
            Type::Unknown => "U",
            Type::Control => "C",
            Type::UserDefined => "D",
            Type::Unused => "X",
            Type::Byte => "B",
        };
        lines.push(format!("SPP {} {} {} {}", slot, p.piece.as_ref().map(|t| hex(t.as_bytes())).unwrap_or("~".into()), p.score().to_bits(), ty));
    }
    lines.push(format!("CONVSP {} :: OK", slot));
    Some(())
}

fn src_lines(slot: usize, src: &[Src], lines: &mut Vec<String>) {
    for s in src {
        lines.push(format!(
            "SRCT {} {} {} {} {} {} {}",
            slot,
            s.id,
            hex(&s.bytes),
            s.unused as u8,
            s.score.map(|x| x.to_string()).unwrap_or("-".into()),
            s.prio.map(|x| x.to_string()).unwrap_or("-".into()),
            s.kind.map(|c| c.to_string()).unwrap_or("-".into())
        ));
    }
}

fn explicit(fmt: &str, data: &[u8]) -> Option<Result<Definition, String>> {
    guarded(|| match fmt {
        "tiktoken" => Definition::from_tiktoken_slice(data).map_err(|e| e.to_string()),
        "tekken" => Definition::from_tekken_slice(data).map_err(|e| e.to_string()),
        "sentencepiece" => Definition::from_sentencepiece_slice(data).map_err(|e| e.to_string()),
        _ => Definition::from_tokenizers_slice(data).map_err(|e| e.to_string()),
    })
}

/// One source through the converter, the independent parser and the detection chain.
fn source_case(slot: &mut usize, fmt: &str, name: &str, data: &[u8], out: &mut Sink) {
    let def = match explicit(fmt, data) {
        Some(Ok(d)) => d,
        Some(Err(_)) => {
            out.count(&format!("rejected_{}", fmt));
            return;
        }
        None => {
            out.push(format!("IMPLEQ convert {} {} :: DIFF the converter panicked", fmt, name));
            return;
        }
    };
    let mut lines = Vec::new();
    let explicit_bytes = def.to_vec();
    let tk = load(*slot, &format!("{}:{}", fmt, name), def, &mut lines);
    let this = *slot;
    *slot += 1;
    let init_ok = tk.tok.is_some();
    let src: Option<Vec<Src>> = match fmt {
        "tiktoken" => parse_tiktoken(data),
        "tekken" => parse_tekken(data).map(|t| tekken_src(&t)),
        "sentencepiece" => parse_sentencepiece(data),
        _ => parse_tokenizers(data),
    };
    match src {
        Some(mut src) => {
            // a source that lists the same token twice has no well-defined merge priority per entry: no order claim
            {
                let mut seen = std::collections::HashSet::new();
                if src.iter().any(|s| !seen.insert((s.id, s.bytes.clone()))) {
                    for s in src.iter_mut() {
                        s.prio = None;
                    }
                }
            }
            src_lines(this, &src, &mut lines);
            // "yields a definition that initializes" is claimed for well-formed sources: no empty token and
            // no two ordinary tokens with the same bytes or the same id (Tiktoken / Tekken sources are not
            // de-duplicated by their converters; the combined loader then reports the initialization error)
            // (duplicates that only arise by undoing <0xNN> or placeholder spellings are legitimate in
            // SentencePiece and Tokenizers sources: their converters drop them, and the result must initialize)
            let mut seen_b = std::collections::HashSet::new();
            let mut seen_i = std::collections::HashSet::new();
            let dedups = fmt == "sentencepiece" || fmt == "tokenizers";
            let malformed = src.iter().filter(|s| !s.unused).any(|s| s.bytes.is_empty() || !seen_i.insert(s.id) || (!dedups && s.kind.is_none() && !seen_b.insert(s.bytes.clone())));
            if malformed {
                out.count("malformed_sources");
            }
            lines.push(format!("KEEPS {} {} :: {}", this, fmt, if init_ok || malformed { "OK" } else { "ERR init" }));
            out.count(&format!("sources_{}", fmt));
            if fmt == "tiktoken" {
                lines.push(format!("CONVTT {} :: OK", this));
            }
        }
        None => {
            lines.push(format!("IMPLEQ independent-parse {} {} :: DIFF the converter accepts a source that the independent parser cannot read", fmt, name));
        }
    }
    if fmt == "sentencepiece" {
        if sp_model_lines(this, data, &mut lines).is_some() {
            out.count("sentencepiece_sources_through_the_model");
        }
    }
    if fmt == "tokenizers" {
        if hf_model_lines(this, data, &mut lines).is_some() {
            out.count("tokenizers_sources_through_the_model");
        } else {
            out.count("tokenizers_sources_not_expressible");
        }
    }
    if fmt == "tekken" {
        if let Some(t) = parse_tekken(data) {
            if t.entries.len() <= 5000 {
                let entries = if t.entries.is_empty() { "-".to_string() } else { t.entries.iter().map(|(r, b)| format!("{}:{}", r, hex(b))).collect::<Vec<_>>().join(",") };
                lines.push(format!(
                    "CONVTK {} {} {} {} {} :: OK",
                    this,
                    hex(t.version.as_bytes()),
                    t.num_special.map(|x| x.to_string()).unwrap_or("-".into()),
                    t.vocab_size.map(|x| x.to_string()).unwrap_or("-".into()),
                    entries
                ));
            }
        }
    }
    // auto-detection: same definition as the explicit converter; which earlier loaders accept the data?
    let auto = guarded(|| Definition::from_slice(data).map(|d| d.to_vec()).map_err(|e| e.to_string()));
    let chain = ["tiktoken", "sentencepiece", "tokenizers", "tekken"];
    let earlier: Vec<&str> = chain.iter().take_while(|f| **f != fmt).filter(|f| matches!(explicit(f, data), Some(Ok(_)))).copied().collect();
    let verdict = match auto {
        Some(Ok(b)) if b == explicit_bytes => "OK".to_string(),
        Some(Ok(_)) => format!("DIFF auto-detection returns a different definition (earlier loaders accepting the data: {:?})", earlier),
        Some(Err(e)) => format!("DIFF auto-detection rejects the source: {}", e),
        None => "DIFF auto-detection panicked".to_string(),
    };
    lines.push(format!("IMPLEQ detect {} {} :: {}", fmt, name, verdict));
    // a native file of this definition is read back as itself, never through a foreign loader
    let native = guarded(|| Definition::from_slice(&explicit_bytes).map(|d| d.to_vec()).ok()).flatten();
    lines.push(format!("IMPLEQ detect-native {} {} :: {}", fmt, name, if native.as_deref() == Some(&explicit_bytes[..]) { "OK" } else { "DIFF a native file is not read back as itself" }));
    out.group(lines);
}

fn bytetab_line() -> String {
    // a ByteLevel BPE source with one token per candidate placeholder character
    let mut vocab = serde_json::Map::new();
    let cands: Vec<u32> = (33u32..=126).chain(161..=172).chain(174..=255).chain(256..=330).collect();
    for (i, cp) in cands.iter().enumerate() {
        vocab.insert(char::from_u32(*cp).unwrap().to_string(), Value::from(i as u64));
    }
    let j = serde_json::json!({
        "version": "1.0", "truncation": null, "padding": null, "added_tokens": [], "normalizer": null,
        "pre_tokenizer": {"type": "ByteLevel", "add_prefix_space": false, "trim_offsets": true, "use_regex": true},
        "post_processor": null, "decoder": {"type": "ByteLevel", "add_prefix_space": true, "trim_offsets": true, "use_regex": true},
        "model": {"type": "BPE", "vocab": Value::Object(vocab), "merges": []}
    });
    let def = match explicit("tokenizers", j.to_string().as_bytes()) {
        Some(Ok(d)) => d,
        other => return format!("BYTETAB - :: ERR {:?}", other.map(|r| r.err())),
    };
    let vocab = match &def.model {
        Model::BytePair { vocab, .. } => vocab.clone(),
        _ => return "BYTETAB - :: ERR model".into(),
    };
    let mut table = vec![0u32; 256];
    let mut found = 0;
    for t in vocab.iter() {
        if t.bytes.len() == 1 {
            let cp = cands[t.id as usize];
            // a character that is not in the table keeps its UTF-8 bytes: single bytes below 0x80 only
            table[t.bytes[0] as usize] = cp;
            found += 1;
        }
    }
    format!("BYTETAB {} :: {}", table.iter().map(|x| x.to_string()).collect::<Vec<_>>().join(","), if found == 256 { "OK" } else { "DIFF" })
}

fn bytepiece_line(text: &str) -> String {
    use prost::Message;
    use sentencepiece_model::{ModelProto, SentencePiece, TrainerSpec, Type};
    let mut m = ModelProto::default();
    let piece = |t: &str, ty: Type| SentencePiece { piece: Some(t.to_string()), score: Some(0.0), r#type: Some(ty as i32) };
    m.pieces.push(piece("<unk>", Type::Unknown));
    m.pieces.push(piece("zz", Type::Normal));
    m.pieces.push(piece(text, Type::Byte));
    let mut t = TrainerSpec::default();
    t.model_type = Some(1);
    t.byte_fallback = Some(true);
    m.trainer_spec = Some(t);
    let a = match explicit("sentencepiece", &m.encode_to_vec()) {
        Some(Ok(d)) => {
            let vocab = match &d.model {
                Model::Unigram { vocab, .. } => vocab.clone(),
                Model::BytePair { vocab, .. } => vocab.clone(),
                _ => Vec::new().into(),
            };
            match vocab.iter().find(|t| t.id == 2) {
                Some(t) if t.bytes.len() == 1 => format!("OK {}", t.bytes[0]),
                _ => "ERR".to_string(),
            }
        }
        Some(Err(_)) => "ERR".to_string(),
        None => "PANIC".to_string(),
    };
    format!("BYTEPIECE {} :: {}", hex(text.as_bytes()), a)
}

pub fn gen(rng: &mut Rng, thorough: bool, out: &mut Sink) {
    out.push(bytetab_line());
    for b in 0..=255u32 {
        out.push(bytepiece_line(&format!("<0x{:02X}>", b)));
        if b % 5 == 0 {
            out.push(bytepiece_line(&format!("<0x{:02x}>", b)));
        }
    }
    for t in ["<0x+F>", "<0x+G>", "<0x++>", "<0xF+>", "<0x-1>", "<0x4", "<0x", "", "<0xZZ>", "<0x4G>", "<0xG4>", "<0x 4>", "<0xé>", "<0x€>", "é0x41>", "<0x414>", "abc41>"] {
        out.push(bytepiece_line(t));
    }
    let mut slot = 0usize;
    // ---- the shipped foreign-format sources
    for (name, path) in shipped_models() {
        let fmt = name.split(':').next().unwrap_or("").to_string();
        if !["tiktoken", "tekken", "sentencepiece", "tokenizers"].contains(&fmt.as_str()) {
            continue;
        }
        if let Ok(data) = std::fs::read(&path) {
            source_case(&mut slot, &fmt, &name, &data, out);
            out.count("shipped_sources");
        }
    }
    // ---- generated sources of each format (mostly valid, with boundary values)
    let n = if thorough { 24000 } else { 400 };
    for v in 0..n {
        let (fmt, data) = match v % 5 {
            4 => ("tokenizers", crate::c17::hf_zoo(rng, v / 5)),
            0 => ("tokenizers", crate::c17::hf_json(rng, v / 4)),
            1 => ("sentencepiece", crate::c17::sp_model(rng, v / 4)),
            2 => ("tekken", crate::c17::tekken_json(rng, v / 4)),
            _ => ("tiktoken", crate::c17::tiktoken_text(rng, v / 4)),
        };
        source_case(&mut slot, fmt, &format!("generated{}", v), &data, out);
    }
}
