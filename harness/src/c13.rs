//! C13 — token post-processing (PROC ops) and byte clean-up steps (DECSTEP ops).
use crate::rng::Rng;
use crate::sink::Sink;
use crate::util::*;
use kitoken::{Configuration, Processing, ProcessingDirection};

pub fn proc_enc(p: &Processing) -> String {
    let d = |d: &ProcessingDirection| match d {
        ProcessingDirection::Left => "L",
        ProcessingDirection::Right => "R",
    };
    match p {
        Processing::Strip { id, left, right } => format!("S.{}.{}.{}", id, left, right),
        Processing::Collapse { id } => format!("C.{}", id),
        Processing::Pad { id, length, stride, direction } => {
            format!("P.{}.{}.{}.{}", id, length, stride, d(direction))
        }
        Processing::Truncate { length, stride, direction } => {
            format!("T.{}.{}.{}", length, stride, d(direction))
        }
    }
}

pub fn run_proc(steps: &[Processing], tokens: &[u32]) -> String {
    let config = Configuration { processing: steps.to_vec(), ..Configuration::default() };
    match guarded(|| {
        let mut t = tokens.to_vec();
        config.process(&mut t);
        t
    }) {
        Some(t) => format!("OK {}", ids(&t)),
        None => "PANIC".into(),
    }
}

pub fn proc_line(steps: &[Processing], tokens: &[u32]) -> String {
    let enc = steps.iter().map(proc_enc).collect::<Vec<_>>();
    format!("PROC {} {} :: {}", join_or_dash(&enc), ids(tokens), run_proc(steps, tokens))
}

fn all_seqs(max_len: usize, alphabet: &[u32]) -> Vec<Vec<u32>> {
    let mut out = vec![vec![]];
    let mut cur = vec![vec![]];
    for _ in 0..max_len {
        let mut next = Vec::new();
        for s in &cur {
            for &a in alphabet {
                let mut t: Vec<u32> = s.clone();
                t.push(a);
                next.push(t);
            }
        }
        out.extend(next.iter().cloned());
        cur = next;
    }
    out
}

pub fn gen(rng: &mut Rng, thorough: bool, out: &mut Sink) {
    use ProcessingDirection::*;
    let max_len = if thorough { 7 } else { 5 };
    let pmax: u32 = if thorough { 8 } else { 4 };
    let seqs = all_seqs(max_len, &[1, 2, 3]);
    let mut params: Vec<u32> = (0..=pmax).collect();
    params.push(u32::MAX);
    for s in &seqs {
        for &l in &params {
            for &r in &params {
                out.push(proc_line(&[Processing::Strip { id: 1, left: l, right: r }], s));
            }
        }
        for id in [1, 2, 9] {
            out.push(proc_line(&[Processing::Collapse { id }], s));
        }
        for length in 0..=pmax {
            for &stride in &params {
                for direction in [Left, Right] {
                    // u32::MAX as a *stride* with a non-zero deficit would allocate 16 GiB: resource
                    // exhaustion is outside the property, so the stride is capped for Pad.
                    let pstride = if stride == u32::MAX { 1 << 12 } else { stride };
                    out.push(proc_line(&[Processing::Pad { id: 2, length, stride: pstride, direction }], s));
                    out.push(proc_line(&[Processing::Truncate { length, stride, direction }], s));
                }
            }
        }
    }
    out.exhaustive.push(format!("PROC: all sequences up to length {} over 3 ids x Strip/Pad/Truncate parameters 0..{} and u32::MAX x both directions", max_len, pmax));
    // random: long sequences, large parameters, multi-step lists
    let n = if thorough { 60000 } else { 6000 };
    for _ in 0..n {
        let len = if rng.chance(1, 10) { rng.range(0, 400) } else { rng.range(0, 24) };
        let alpha = rng.range(1, 4) as u32;
        let s: Vec<u32> = (0..len).map(|_| 1 + rng.below(alpha as usize) as u32).collect();
        let nsteps = if rng.chance(1, 2) { 1 } else { rng.range(0, 5) };
        let mut steps = Vec::new();
        for _ in 0..nsteps {
            let big = |rng: &mut Rng| -> u32 {
                match rng.below(8) {
                    0 => u32::MAX,
                    1 => rng.range(0, 500) as u32,
                    _ => rng.range(0, 12) as u32,
                }
            };
            let direction = if rng.chance(1, 2) { Left } else { Right };
            steps.push(match rng.below(4) {
                0 => Processing::Strip { id: 1 + rng.below(alpha as usize) as u32, left: big(rng), right: big(rng) },
                1 => Processing::Collapse { id: 1 + rng.below(alpha as usize) as u32 },
                2 => Processing::Pad {
                    id: rng.range(0, 4) as u32,
                    length: rng.range(0, 40) as u32,
                    stride: rng.range(0, 9) as u32,
                    direction,
                },
                _ => Processing::Truncate { length: rng.range(0, 40) as u32, stride: big(rng), direction },
            });
        }
        out.push(proc_line(&steps, &s));
    }
}

fn parse_dir(s: &str) -> Option<ProcessingDirection> {
    match s {
        "L" => Some(ProcessingDirection::Left),
        "R" => Some(ProcessingDirection::Right),
        _ => None,
    }
}
pub fn parse_proc(s: &str) -> Option<Processing> {
    let p: Vec<&str> = s.split('.').collect();
    Some(match p.as_slice() {
        ["S", id, l, r] => Processing::Strip { id: id.parse().ok()?, left: l.parse().ok()?, right: r.parse().ok()? },
        ["C", id] => Processing::Collapse { id: id.parse().ok()? },
        ["P", id, n, st, d] => Processing::Pad {
            id: id.parse().ok()?,
            length: n.parse().ok()?,
            stride: st.parse().ok()?,
            direction: parse_dir(d)?,
        },
        ["T", n, st, d] => Processing::Truncate { length: n.parse().ok()?, stride: st.parse().ok()?, direction: parse_dir(d)? },
        _ => return None,
    })
}
pub fn parse_ids(s: &str) -> Option<Vec<u32>> {
    if s == "-" {
        return Some(Vec::new());
    }
    s.split(',').map(|x| x.parse().ok()).collect()
}
/// Recomputes the implementation's answer for a request line (corpus / replay).
pub fn run_request(words: &[&str]) -> Option<String> {
    match words {
        ["PROC", steps, ids] => {
            let steps = if *steps == "-" { Vec::new() } else { steps.split(',').map(parse_proc).collect::<Option<Vec<_>>>()? };
            Some(run_proc(&steps, &parse_ids(ids)?))
        }
        _ => None,
    }
}
