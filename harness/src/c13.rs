//! C13 — token post-processing (PROC ops) and byte clean-up steps (DECSTEP ops).
use crate::rng::Rng;
use crate::sink::Sink;
use crate::util::*;
use kitoken::{Configuration, Decoding, DecodingReplacePattern, Processing, ProcessingDirection};

pub fn proc_enc(p: &Processing) -> String {
    let d = |d: &ProcessingDirection| match d {
        ProcessingDirection::Left => "L",
        ProcessingDirection::Right => "R",
    };
    match p {
        Processing::Strip { id, left, right } => format!("S.{}.{}.{}", id, left, right),
        Processing::Collapse { id } => format!("C.{}", id),
        Processing::Pad { id, length, stride, direction } => {
            format!("P.{}.{}.{}.{}", id, length, stride, d(direction))
        }
        Processing::Truncate { length, stride, direction } => {
            format!("T.{}.{}.{}", length, stride, d(direction))
        }
    }
}

pub fn run_proc(steps: &[Processing], tokens: &[u32]) -> String {
    let config = Configuration { processing: steps.to_vec(), ..Configuration::default() };
    match guarded(|| {
        let mut t = tokens.to_vec();
        config.process(&mut t);
        t
    }) {
        Some(t) => format!("OK {}", ids(&t)),
        None => "PANIC".into(),
    }
}

pub fn proc_line(steps: &[Processing], tokens: &[u32]) -> String {
    let enc = steps.iter().map(proc_enc).collect::<Vec<_>>();
    format!("PROC {} {} :: {}", join_or_dash(&enc), ids(tokens), run_proc(steps, tokens))
}

fn all_seqs(max_len: usize, alphabet: &[u32]) -> Vec<Vec<u32>> {
    let mut out = vec![vec![]];
    let mut cur = vec![vec![]];
    for _ in 0..max_len {
        let mut next = Vec::new();
        for s in &cur {
            for &a in alphabet {
                let mut t: Vec<u32> = s.clone();
                t.push(a);
                next.push(t);
            }
        }
        out.extend(next.iter().cloned());
        cur = next;
    }
    out
}

pub fn gen(rng: &mut Rng, thorough: bool, out: &mut Sink) {
    use ProcessingDirection::*;
    let max_len = if thorough { 7 } else { 5 };
    let pmax: u32 = if thorough { 8 } else { 4 };
    let seqs = all_seqs(max_len, &[1, 2, 3]);
    let mut params: Vec<u32> = (0..=pmax).collect();
    params.push(u32::MAX);
    for s in &seqs {
        for &l in &params {
            for &r in &params {
                out.push(proc_line(&[Processing::Strip { id: 1, left: l, right: r }], s));
            }
        }
        for id in [1, 2, 9] {
            out.push(proc_line(&[Processing::Collapse { id }], s));
        }
        // the same sequence over the ids {0, 2, u32::MAX}: 0 is the usual unknown id and the default value of the
        // id type, u32::MAX the reserved value
        let z: Vec<u32> = s.iter().map(|&t| match t { 1 => 0, 3 => u32::MAX, x => x }).collect();
        for id in [0, 2, u32::MAX] {
            out.push(proc_line(&[Processing::Collapse { id }], &z));
            out.push(proc_line(&[Processing::Strip { id, left: 1, right: 2 }], &z));
        }
        out.push(proc_line(&[Processing::Pad { id: 0, length: pmax, stride: 2, direction: Left }], &z));
        for length in 0..=pmax {
            for &stride in &params {
                for direction in [Left, Right] {
                    // u32::MAX as a *stride* with a non-zero deficit would allocate 16 GiB: resource
                    // exhaustion is outside the property, so the stride is capped for Pad.
                    let pstride = if stride == u32::MAX { 1 << 12 } else { stride };
                    out.push(proc_line(&[Processing::Pad { id: 2, length, stride: pstride, direction }], s));
                    out.push(proc_line(&[Processing::Truncate { length, stride, direction }], s));
                }
            }
        }
    }
    out.exhaustive.push(format!("PROC: all sequences up to length {} over 3 ids x Strip/Pad/Truncate parameters 0..{} and u32::MAX x both directions", max_len, pmax));
    // random: long sequences, large parameters, multi-step lists
    let n = if thorough { 60000 } else { 6000 };
    for _ in 0..n {
        let len = if rng.chance(1, 10) { rng.range(0, 400) } else { rng.range(0, 24) };
        let alpha = rng.range(1, 4) as u32;
        let base = if rng.chance(1, 3) { 0 } else { 1 };
        let s: Vec<u32> = (0..len).map(|_| base + rng.below(alpha as usize) as u32).collect();
        let nsteps = if rng.chance(1, 2) { 1 } else { rng.range(0, 5) };
        let mut steps = Vec::new();
        for _ in 0..nsteps {
            let big = |rng: &mut Rng| -> u32 {
                match rng.below(8) {
                    0 => u32::MAX,
                    1 => rng.range(0, 500) as u32,
                    _ => rng.range(0, 12) as u32,
                }
            };
            let direction = if rng.chance(1, 2) { Left } else { Right };
            steps.push(match rng.below(4) {
                0 => Processing::Strip { id: base + rng.below(alpha as usize) as u32, left: big(rng), right: big(rng) },
                1 => Processing::Collapse { id: base + rng.below(alpha as usize) as u32 },
                2 => Processing::Pad {
                    id: rng.range(0, 4) as u32,
                    length: rng.range(0, 40) as u32,
                    stride: rng.range(0, 9) as u32,
                    direction,
                },
                _ => Processing::Truncate { length: rng.range(0, 40) as u32, stride: big(rng), direction },
            });
        }
        out.push(proc_line(&steps, &s));
    }
    gen_decsteps(rng, thorough, out);
}

fn parse_dir(s: &str) -> Option<ProcessingDirection> {
    match s {
        "L" => Some(ProcessingDirection::Left),
        "R" => Some(ProcessingDirection::Right),
        _ => None,
    }
}

pub fn run_decstep(steps: &[Decoding], text: &[u8]) -> (String, String) {
    let config = Configuration { decoding: steps.to_vec(), ..Configuration::default() };
    kitoken::verif::start();
    let r = guarded(|| {
        let mut t = text.to_vec();
        config.decode(&mut t);
        t
    });
    let ora = crate::defs::oracle_words();
    match r {
        Some(t) => (format!("OK {}", hex(&t)), ora),
        None => ("PANIC".into(), ora),
    }
}

pub fn decstep_line(steps: &[Decoding], text: &[u8]) -> String {
    let enc = steps.iter().map(crate::defs::dec_enc).collect::<Vec<_>>();
    let (a, ora) = run_decstep(steps, text);
    format!("DECSTEP {} {}{} :: {}", join_or_dash(&enc), hex(text), ora, a)
}

/// Byte strings: valid UTF-8 over a multi-byte alphabet, and arbitrary bytes incl. invalid UTF-8.
fn random_bytes(rng: &mut Rng, max_len: usize) -> Vec<u8> {
    let chars = ['a', ' ', 'é', '▁', '😀', '\u{fffd}', '#'];
    let n = rng.range(0, max_len);
    let mut v = Vec::new();
    for _ in 0..n {
        match rng.below(10) {
            0 => v.push(rng.below(256) as u8),
            1 => v.push(*rng.pick(&[0x80u8, 0xbf, 0xc0, 0xc3, 0xe2, 0xed, 0xf0, 0xf4, 0xff, 0xa0, 0x96])),
            _ => v.extend_from_slice(rng.pick(&chars).to_string().as_bytes()),
        }
    }
    v
}

pub fn gen_decsteps(rng: &mut Rng, thorough: bool, out: &mut Sink) {
    let chars = ['a', ' ', 'é', '▁', '😀', '\u{fffd}'];
    // exhaustive: all strings up to length 4 (5) over a 3-letter multi-byte alphabet x all parameter combinations
    let alpha = ['a', 'é', '▁'];
    let strings = crate::gen::all_strings(&alpha, if thorough { 5 } else { 4 });
    let pmax = if thorough { 3 } else { 2 };
    for s in &strings {
        for &c in &alpha {
            for l in 0..=pmax {
                for r in 0..=pmax {
                    out.push(decstep_line(&[Decoding::Strip { character: c, left: l, right: r }], s.as_bytes()));
                    for pad in [false, true] {
                        out.push(decstep_line(&[Decoding::Extend { character: c, left: l, right: r, pad }], s.as_bytes()));
                    }
                }
            }
            out.push(decstep_line(&[Decoding::Collapse { character: c }], s.as_bytes()));
            out.push(decstep_line(&[Decoding::Replace { pattern: DecodingReplacePattern::Character(c), replacement: "é".into() }], s.as_bytes()));
        }
        for pat in ["", "a", "aa", "éa", "▁"] {
            // replacements of the pattern's own byte length whose tail can start the pattern again ("aa" -> "xa" on
            // "aaa"): replacement is left to right over the ORIGINAL text, never over what was just written
            for rep in ["", "x", "aa", "xa", "ba", "aé", "éa"] {
                out.push(decstep_line(
                    &[Decoding::Replace { pattern: DecodingReplacePattern::String(pat.into()), replacement: rep.into() }],
                    s.as_bytes(),
                ));
            }
        }
    }
    out.exhaustive.push(format!("DECSTEP: all strings up to length {} over {{a, é, ▁}} x Strip/Extend parameters 0..{} x pad x Collapse x literal Replace", if thorough { 5 } else { 4 }, pmax));
    // random: arbitrary bytes incl. invalid UTF-8, large parameters, sequences of steps, regex replace
    let n = if thorough { 60000 } else { 6000 };
    for _ in 0..n {
        let maxlen = if rng.chance(1, 10) { 200 } else { 12 };
        let text = random_bytes(rng, maxlen);
        let nsteps = if rng.chance(2, 3) { 1 } else { rng.range(0, 4) };
        let mut steps = Vec::new();
        for _ in 0..nsteps {
            let c = *rng.pick(&chars);
            let big = |rng: &mut Rng| -> u32 { if rng.chance(1, 8) { u32::MAX } else { rng.range(0, 4) as u32 } };
            steps.push(match rng.below(6) {
                0 => Decoding::Strip { character: c, left: big(rng), right: big(rng) },
                1 => Decoding::Extend { character: c, left: rng.range(0, 4) as u32, right: rng.range(0, 4) as u32, pad: rng.chance(1, 2) },
                2 => Decoding::Collapse { character: c },
                3 => Decoding::Replace { pattern: DecodingReplacePattern::Character(c), replacement: rng.pick(&["", " ", "é"]).to_string() },
                4 => Decoding::Replace {
                    pattern: DecodingReplacePattern::String(rng.pick(&["", " ", "▁", "##", "a a"]).to_string()),
                    replacement: rng.pick(&["", " ", "é"]).to_string(),
                },
                _ => Decoding::Replace {
                    pattern: DecodingReplacePattern::Regex(kitoken::Regex::new(*rng.pick(&[" +", "[ ](\\.|\\?|n't)", "a|é", "\\s+$"])).unwrap()),
                    replacement: rng.pick(&["", "$1", " "]).to_string(),
                },
            });
        }
        out.push(decstep_line(&steps, &text));
    }
}
pub fn parse_proc(s: &str) -> Option<Processing> {
    let p: Vec<&str> = s.split('.').collect();
    Some(match p.as_slice() {
        ["S", id, l, r] => Processing::Strip { id: id.parse().ok()?, left: l.parse().ok()?, right: r.parse().ok()? },
        ["C", id] => Processing::Collapse { id: id.parse().ok()? },
        ["P", id, n, st, d] => Processing::Pad {
            id: id.parse().ok()?,
            length: n.parse().ok()?,
            stride: st.parse().ok()?,
            direction: parse_dir(d)?,
        },
        ["T", n, st, d] => Processing::Truncate { length: n.parse().ok()?, stride: st.parse().ok()?, direction: parse_dir(d)? },
        _ => return None,
    })
}
pub fn parse_ids(s: &str) -> Option<Vec<u32>> {
    if s == "-" {
        return Some(Vec::new());
    }
    s.split(',').map(|x| x.parse().ok()).collect()
}
/// Recomputes the implementation's answer for a request line (corpus / replay).
pub fn run_request(words: &[&str]) -> Option<String> {
    match words {
        ["PROC", steps, ids] => {
            let steps = if *steps == "-" { Vec::new() } else { steps.split(',').map(parse_proc).collect::<Option<Vec<_>>>()? };
            Some(run_proc(&steps, &parse_ids(ids)?))
        }
        ["DECSTEP", steps, text] => {
            let steps = crate::parse::parse_list(steps, crate::parse::parse_decoding)?;
            Some(run_decstep(&steps, &unhex(text)).0)
        }
        _ => None,
    }
}
