//! C16 — recorded reference outputs.
//!
//! `REC <slot> <s> <text> <expected ids> <expected output> :: OK <ids> <decoded>`: every shipped
//! foreign-format model converted with its explicit converter, on every line of the small and mixed
//! corpora and on the whole utf8 corpus, with the flags of the upstream tests. The driver evaluates
//! the Lean model on the same input and judges implementation and model against the recorded values.
//! `SAME3`: the three Llama 2 sources on generated texts without special-token strings.
use crate::defs::*;
use crate::gen::*;
use crate::rng::Rng;
use crate::sink::Sink;
use crate::util::*;
use kitoken::*;

fn read_lines(path: &std::path::Path) -> Vec<String> {
    std::fs::read_to_string(path)
        .unwrap_or_default()
        .lines()
        .filter(|l| !l.is_empty())
        .map(|l| l.replace("\\n", "\n").replace("\\s", " ").replace("\\x", ""))
        .collect()
}

fn read_token_lines(path: &std::path::Path) -> Vec<Vec<u32>> {
    std::fs::read_to_string(path)
        .unwrap_or_default()
        .lines()
        .filter(|l| !l.is_empty())
        .map(|l| l.split(',').filter_map(|t| t.trim().parse().ok()).collect())
        .collect()
}

pub fn convert(format: &str, path: &std::path::Path) -> Option<Definition> {
    guarded(|| match format {
        "sentencepiece" => Definition::from_sentencepiece_file(path).ok(),
        "tokenizers" => Definition::from_tokenizers_file(path).ok(),
        "tiktoken" => Definition::from_tiktoken_file(path).ok(),
        "tekken" => Definition::from_tekken_file(path).ok(),
        _ => Definition::from_file(path).ok(),
    })
    .flatten()
}

fn rec_line(tk: &Tk, s: bool, text: &str, want_ids: &[u32], want_out: &str) -> Option<String> {
    let tok = tk.tok.as_ref()?;
    kitoken::verif::start();
    let r = guarded(|| match tok.encode(text, s) {
        Ok(got) => match tok.decode(&got, s) {
            Ok(b) => format!("OK {} {}", ids(&got), hex_or_dash(&b)),
            Err(_) => "ERR decode".into(),
        },
        Err(_) => "ERR encode".into(),
    });
    let ora = oracle_words();
    Some(format!(
        "REC {} {} {} {} {}{} :: {}",
        tk.slot,
        s as u8,
        hex_or_dash(text.as_bytes()),
        ids(want_ids),
        hex_or_dash(want_out.as_bytes()),
        ora,
        r.unwrap_or_else(|| "PANIC".into())
    ))
}

fn hex_or_dash(b: &[u8]) -> String {
    if b.is_empty() {
        "-".into()
    } else {
        hex(b)
    }
}

pub fn gen(rng: &mut Rng, thorough: bool, out: &mut Sink) {
    let data = std::path::Path::new("/repo/tests/data");
    let models = std::path::Path::new("/repo/tests/models");
    let mut slot = 0usize;
    for (format, ext, specials) in [("sentencepiece", "model", false), ("tekken", "json", false), ("tiktoken", "tiktoken", true), ("tokenizers", "json", true)] {
        let mut files: Vec<_> = std::fs::read_dir(models.join(format)).map(|d| d.filter_map(|e| e.ok()).map(|e| e.path()).collect()).unwrap_or_default();
        files.sort();
        for path in files {
            if path.extension().and_then(|e| e.to_str()) != Some(ext) || std::fs::metadata(&path).map(|m| m.len() == 0).unwrap_or(true) {
                continue;
            }
            let name = path.file_stem().unwrap().to_string_lossy().to_string();
            let def = match convert(format, &path) {
                Some(d) => d,
                None => {
                    out.push(format!("IMPLEQ convert {}:{} :: DIFF the shipped reference model does not convert", format, name));
                    continue;
                }
            };
            let mut lines = Vec::new();
            let tk = load(slot, &format!("{}:{}", format, name), def, &mut lines);
            slot += 1;
            for corpus in ["small", "mixed", "utf8"] {
                let tokens_path = data.join(format).join(format!("{}_tokens_{}.txt", corpus, name));
                if !tokens_path.is_file() {
                    out.count("no_recorded_tokens");
                    continue;
                }
                let output_path = data.join(format).join(format!("{}_output_{}.txt", corpus, name));
                let input_path = data.join(format!("{}_input.txt", corpus));
                if corpus == "utf8" {
                    // the whole file as one text
                    let input = std::fs::read_to_string(&input_path).unwrap_or_default();
                    let want: Vec<u32> = read_token_lines(&tokens_path).into_iter().flatten().collect();
                    let want_out = if output_path.is_file() { std::fs::read_to_string(&output_path).unwrap_or_default() } else { input.clone() };
                    if let Some(l) = rec_line(&tk, specials, &input, &want, &want_out) {
                        lines.push(l);
                        out.count("recorded_full_texts");
                    }
                } else {
                    let inputs = read_lines(&input_path);
                    let wants = read_token_lines(&tokens_path);
                    let outs = if output_path.is_file() { read_lines(&output_path) } else { inputs.clone() };
                    if inputs.len() != wants.len() || inputs.len() != outs.len() {
                        lines.push(format!("IMPLEQ recorded-shape {}:{}:{} :: DIFF {} input lines, {} token lines, {} output lines", format, name, corpus, inputs.len(), wants.len(), outs.len()));
                        continue;
                    }
                    for i in 0..inputs.len() {
                        if let Some(l) = rec_line(&tk, specials, &inputs[i], &wants[i], &outs[i]) {
                            lines.push(l);
                            out.count("recorded_lines");
                        }
                    }
                }
            }
            out.count("reference_models");
            out.group(lines);
        }
    }
    // ---- the three Llama 2 sources
    let sources = [("sentencepiece", models.join("sentencepiece/llama2.model")), ("tokenizers", models.join("tokenizers/llama2.json")), ("native", models.join("llama2.kit"))];
    let defs: Vec<(String, Definition)> = sources.iter().filter_map(|(f, p)| convert(f, p).map(|d| (f.to_string(), d))).collect();
    if defs.len() == 3 {
        let mut lines = Vec::new();
        // hypothesis of `same_definition_same_encoding`: the SentencePiece conversion and the native file
        // are the same definition apart from metadata
        let strip = |d: &Definition| {
            let mut d = d.clone();
            d.meta = Metadata::default();
            d.to_vec()
        };
        lines.push(format!(
            "IMPLEQ samedef llama2 sentencepiece native :: {}",
            if strip(&defs[0].1) == strip(&defs[2].1) { "OK" } else { "DIFF the native Llama 2 file and the SentencePiece conversion differ outside metadata" }
        ));
        let tks: Vec<Tk> = defs.into_iter().enumerate().map(|(i, (f, d))| load(slot + i, &format!("llama2:{}", f), d, &mut lines)).collect();
        let special_texts: Vec<String> = tks.iter().flat_map(|t| t.def.specials.iter().map(|s| String::from_utf8_lossy(&s.bytes).to_string())).collect();
        let n = if thorough { 20000 } else { 1500 };
        let corpus: Vec<String> = ["small_input.txt", "mixed_input.txt", "utf8_input.txt"].iter().flat_map(|f| read_lines(&data.join(f))).collect();
        for k in 0..n {
            let text = match k % 5 {
                0 => rng.pick(&corpus).clone(),
                1 => random_scalar(rng).to_string(),
                2 => random_string(rng, &['a', 'b', ' ', 'é', '▁', 'A', '\u{0301}', '\n', '語', '\t', '0'], 30),
                3 => crate::enc::long_piece(rng),
                _ => random_text(rng, 6),
            };
            if special_texts.iter().any(|s| !s.is_empty() && text.contains(s.as_str())) {
                out.count("same3_skipped_special_string");
                continue;
            }
            let s = k % 2 == 0;
            let answers: Vec<(String, String)> = tks.iter().map(|t| enc_answer(t.tok.as_ref().unwrap(), &text, s)).collect();
            let same = answers.iter().all(|a| a.0 == answers[0].0);
            lines.push(format!(
                "IMPLEQ same3 {} {} :: {}",
                s as u8,
                hex_or_dash(text.as_bytes()),
                if same { "OK".to_string() } else { format!("DIFF sentencepiece=[{}] tokenizers=[{}] native=[{}]", answers[0].0, answers[1].0, answers[2].0) }
            ));
            // and the model on each source
            if k % 10 == 0 {
                for (t, a) in tks.iter().zip(answers.iter()) {
                    lines.push(format!("ENC {} {} {}{} :: {}", t.slot, s as u8, hex(text.as_bytes()), a.1, a.0));
                }
            }
            out.count("same3_texts");
        }
        out.group(lines);
    } else {
        out.push("IMPLEQ same3 sources :: DIFF not all three Llama 2 sources load".into());
    }
}

/// Development aid: how do the three Llama 2 definitions differ?
pub fn cmp3() {
    let models = std::path::Path::new("/repo/tests/models");
    let sources = [("sentencepiece", models.join("sentencepiece/llama2.model")), ("tokenizers", models.join("tokenizers/llama2.json")), ("native", models.join("llama2.kit"))];
    let defs: Vec<Definition> = sources.iter().filter_map(|(f, p)| convert(f, p)).collect();
    for d in &defs {
        let (v, kind) = match &d.model {
            Model::BytePair { vocab, chars } => (vocab.clone(), format!("bpe chars={}", chars)),
            Model::Unigram { vocab, .. } => (vocab.clone(), "unigram".to_string()),
            Model::WordPiece { vocab, .. } => (vocab.clone(), "wordpiece".to_string()),
            _ => (Vec::new(), "other".to_string()),
        };
        let mut h = String::new();
        for t in v.iter() {
            h.push_str(&format!("{}:{};", t.id, hex(&t.bytes)));
        }
        println!("{} vocab={} order-hash={:016x} specials={:?}", kind, v.len(), crate::c19::fnv(h.as_bytes()), d.specials);
        println!("config={:?}", d.config);
    }
}
