//! Output of generated cases, sharded over several files so that drivers can run in parallel.
use std::io::Write;

pub struct Sink {
    shards: Vec<Vec<String>>,
    next: usize,
    pub coverage: std::collections::BTreeMap<String, u64>,
    pub exhaustive: Vec<String>,
}
impl Sink {
    pub fn new(n: usize) -> Self {
        Sink { shards: vec![Vec::new(); n.max(1)], next: 0, coverage: Default::default(), exhaustive: Vec::new() }
    }
    /// A stateless case: goes to the next shard round-robin.
    pub fn push(&mut self, line: String) {
        let n = self.shards.len();
        self.shards[self.next % n].push(line);
        self.next += 1;
    }
    /// A group of lines that must stay together (definition lines followed by their cases).
    pub fn group(&mut self, lines: Vec<String>) {
        let n = self.shards.len();
        // put the group on the currently smallest shard
        let k = (0..n).min_by_key(|&i| self.shards[i].len()).unwrap();
        self.shards[k].extend(lines);
    }
    pub fn count(&mut self, key: &str) {
        *self.coverage.entry(key.to_string()).or_insert(0) += 1;
    }
    pub fn add(&mut self, key: &str, n: u64) {
        *self.coverage.entry(key.to_string()).or_insert(0) += n;
    }
    pub fn write(&self, prefix: &str) {
        for (i, s) in self.shards.iter().enumerate() {
            if s.is_empty() {
                continue;
            }
            let mut f = std::io::BufWriter::new(std::fs::File::create(format!("{}{:03}.ops", prefix, i)).expect("create"));
            for l in s {
                writeln!(f, "{}", l).unwrap();
            }
        }
        let cov = self
            .coverage
            .iter()
            .map(|(k, v)| format!("\"{}\":{}", k, v))
            .collect::<Vec<_>>()
            .join(",");
        let ex = self.exhaustive.iter().map(|s| format!("\"{}\"", s)).collect::<Vec<_>>().join(",");
        println!("COVERAGE {{\"branches\":{{{}}},\"exhaustive\":[{}]}}", cov, ex);
    }
}
