//! Definitions on the wire: `kitoken::Definition` -> DEF lines for the driver, tokenizer handles,
//! ENC / DEC lines with the oracle table recorded through the `verif-hooks` feature.
use crate::util::*;
use kitoken::*;

pub fn pat_norm(p: &NormalizationReplacePattern) -> String {
    match p {
        NormalizationReplacePattern::Character(c) => format!("c{}", *c as u32),
        NormalizationReplacePattern::String(s) => format!("s{}", hex(s.as_bytes())),
        NormalizationReplacePattern::Regex(r) => format!("r{}", hex(r.as_bytes())),
    }
}
pub fn pat_dec(p: &DecodingReplacePattern) -> String {
    match p {
        DecodingReplacePattern::Character(c) => format!("c{}", *c as u32),
        DecodingReplacePattern::String(s) => format!("s{}", hex(s.as_bytes())),
        DecodingReplacePattern::Regex(r) => format!("r{}", hex(r.as_bytes())),
    }
}
pub fn pat_split(p: &SplitPattern) -> String {
    match p {
        SplitPattern::Character(c) => format!("c{}", *c as u32),
        SplitPattern::String(s) => format!("s{}", hex(s.as_bytes())),
        SplitPattern::Regex(r) => format!("r{}", hex(r.as_bytes())),
    }
}

/// (array as little-endian words, normalized) of a CharsMap, read back from its postcard form
/// (the fields are private): varint length, varint u32 units, varint length, bytes.
pub fn charsmap_parts(map: &CharsMap) -> (Vec<u8>, Vec<u8>) {
    let bytes = postcard::to_allocvec(map).expect("postcard");
    let mut pos = 0usize;
    let mut varint = |pos: &mut usize| -> u64 {
        let mut v = 0u64;
        let mut shift = 0;
        loop {
            let b = bytes[*pos];
            *pos += 1;
            v |= ((b & 0x7f) as u64) << shift;
            if b & 0x80 == 0 {
                break;
            }
            shift += 7;
        }
        v
    };
    let n = varint(&mut pos) as usize;
    let mut array = Vec::with_capacity(n * 4);
    for _ in 0..n {
        let u = varint(&mut pos) as u32;
        array.extend_from_slice(&u.to_le_bytes());
    }
    let m = varint(&mut pos) as usize;
    let normalized = bytes[pos..pos + m].to_vec();
    (array, normalized)
}

pub fn norm_enc(n: &Normalization) -> String {
    use Normalization::*;
    match n {
        Unicode { scheme } => format!(
            "U.{}",
            match scheme {
                UnicodeNormalization::NFC => "NFC",
                UnicodeNormalization::NFD => "NFD",
                UnicodeNormalization::NFKC => "NFKC",
                UnicodeNormalization::NFKD => "NFKD",
            }
        ),
        NMT => "NMT".into(),
        CaseFold { upper } => format!("CF.{}", *upper as u8),
        Append { append } => format!("AP.{}", hex(append.as_bytes())),
        Prepend { prepend } => format!("PP.{}", hex(prepend.as_bytes())),
        Extend { character, left, right, pad } => format!("EX.{}.{}.{}.{}", *character as u32, left, right, *pad as u8),
        Strip { character, left, right } => format!("ST.{}.{}.{}", *character as u32, left, right),
        Collapse { character } => format!("CO.{}", *character as u32),
        Replace { pattern, replacement } => format!("RP.{}.{}", pat_norm(pattern), hex(replacement.as_bytes())),
        CharsMap { map } => {
            let (a, n) = charsmap_parts(map);
            format!("CM.{}.{}", hex(&a), hex(&n))
        }
        Conditional { condition, normalization } => format!(
            "CND~{}~{}",
            match condition {
                NormalizationCondition::StartOfText => "S",
                NormalizationCondition::EndOfText => "E",
            },
            norm_enc(normalization)
        ),
    }
}
pub fn behavior_enc(b: &SplitBehavior) -> &'static str {
    match b {
        SplitBehavior::Match => "MA",
        SplitBehavior::Remove => "RE",
        SplitBehavior::Isolate => "IS",
        SplitBehavior::Merge => "ME",
        SplitBehavior::MergeLeft => "ML",
        SplitBehavior::MergeRight => "MR",
    }
}
pub fn split_enc(s: &Split) -> String {
    match s {
        Split::Pattern { pattern, behavior } => format!("P.{}.{}", pat_split(pattern), behavior_enc(behavior)),
        Split::UnicodeScript => "US".into(),
    }
}
pub fn dec_enc(d: &Decoding) -> String {
    use Decoding::*;
    match d {
        Extend { character, left, right, pad } => format!("EX.{}.{}.{}.{}", *character as u32, left, right, *pad as u8),
        Strip { character, left, right } => format!("ST.{}.{}.{}", *character as u32, left, right),
        Collapse { character } => format!("CO.{}", *character as u32),
        Replace { pattern, replacement } => format!("RP.{}.{}", pat_dec(pattern), hex(replacement.as_bytes())),
    }
}
pub fn fallback_enc(f: &Fallback) -> &'static str {
    match f {
        Fallback::Skip => "S",
        Fallback::Unknown => "U",
        Fallback::Bytes => "B",
    }
}
pub fn position_index(p: &InsertionPosition) -> usize {
    use InsertionPosition::*;
    match p {
        WordStart => 0,
        WordContinuation => 1,
        WordEnd => 2,
        SequenceStart => 3,
        SequenceContinuation => 4,
        SequenceEnd => 5,
        SubSequenceStart => 6,
        SubSequenceContinuation => 7,
        SubSequenceEnd => 8,
    }
}
pub fn init_answer(r: &Result<Kitoken, InitializationError>) -> String {
    match r {
        Ok(_) => "OK".into(),
        Err(InitializationError::InvalidScores) => "ERR InvalidScores".into(),
        Err(InitializationError::InvalidEncoder) => "ERR InvalidEncoder".into(),
        Err(InitializationError::InvalidSpecialEncoder) => "ERR InvalidSpecialEncoder".into(),
        Err(InitializationError::InvalidUtf8(_)) => "ERR InvalidUtf8".into(),
        Err(InitializationError::InvalidRegex(_)) => "ERR InvalidRegex".into(),
        Err(InitializationError::InvalidConfig(_)) => "ERR InvalidConfig".into(),
        Err(_) => "ERR Other".into(),
    }
}

/// A definition loaded into a driver slot together with the real tokenizer built from it.
pub struct Tk {
    pub slot: usize,
    pub def: Definition,
    pub tok: Option<Kitoken>,
    pub name: String,
}

/// DEF lines for `def` in `slot`; the last line carries the real constructor's answer.
pub fn def_lines(slot: usize, def: &Definition) -> (Vec<String>, Option<Kitoken>) {
    let mut out = Vec::new();
    let (kind, vocab, scores, chars, maxw): (&str, &Vocab, Option<&Scores>, bool, u32) = match &def.model {
        Model::BytePair { vocab, chars } => ("bpe", vocab, None, *chars, 0),
        Model::Unigram { vocab, scores } => ("unigram", vocab, Some(scores), false, 0),
        Model::WordPiece { vocab, max_word_chars } => ("wordpiece", vocab, None, false, *max_word_chars),
        _ => panic!("unknown model kind"),
    };
    out.push(format!("DEF {} NEW {} {} {}", slot, kind, chars as u8, maxw));
    let nscores = scores.map(|s| s.len()).unwrap_or(0);
    for (i, t) in vocab.iter().enumerate() {
        let s = match scores {
            None => "0".to_string(),
            Some(s) => s.get(i).map(|f| f.to_bits().to_string()).unwrap_or("none".to_string()),
        };
        out.push(format!("DEF {} V {} {} {}", slot, t.id, hex(&t.bytes), s));
    }
    // scores beyond the vocabulary (length mismatch) are sent as score-only entries
    if let Some(scores) = scores {
        for s in scores.iter().skip(vocab.len()) {
            out.push(format!("DEF {} XS {}", slot, s.to_bits()));
        }
    }
    let _ = nscores;
    for s in &def.specials {
        out.push(format!(
            "DEF {} S {} {} {} {} {} {}",
            slot,
            s.id,
            hex(&s.bytes),
            match s.kind {
                SpecialTokenKind::Unknown => "U",
                SpecialTokenKind::Control => "C",
                SpecialTokenKind::Priority => "P",
            },
            s.extract as u8,
            s.score.to_bits(),
            match &s.ident {
                Some(i) => hex(i.as_bytes()),
                None => "none".into(),
            }
        ));
    }
    let c = &def.config;
    out.push(format!("DEF {} FB {}", slot, join_or_dash(&c.fallback.iter().map(|f| fallback_enc(f).to_string()).collect::<Vec<_>>())));
    for n in &c.normalization {
        out.push(format!("DEF {} N {}", slot, norm_enc(n)));
    }
    for s in &c.split {
        out.push(format!("DEF {} SP {}", slot, split_enc(s)));
    }
    for p in &c.processing {
        out.push(format!("DEF {} PR {}", slot, crate::c13::proc_enc(p)));
    }
    for d in &c.decoding {
        out.push(format!("DEF {} DC {}", slot, dec_enc(d)));
    }
    for t in &c.templates {
        out.push(format!("DEF {} TPL {} {}", slot, position_index(&t.position), hex(t.content.as_bytes())));
    }
    let built = guarded(|| Kitoken::from_definition(def.clone()));
    let (answer, tok) = match built {
        Some(r) => {
            let a = init_answer(&r);
            (a, r.ok())
        }
        None => ("PANIC".to_string(), None),
    };
    out.push(format!("DEF {} END :: {}", slot, answer));
    (out, tok)
}

pub fn load(slot: usize, name: &str, def: Definition, out: &mut Vec<String>) -> Tk {
    let (lines, tok) = def_lines(slot, &def);
    out.extend(lines);
    Tk { slot, def, tok, name: name.to_string() }
}

/// Recorded results of external-library calls that differ from what the library returns when called
/// directly on the same input (the hooks record what kitoken *uses* as the result; if kitoken stops
/// calling the library, or calls it differently, the record and the library part ways).
pub static ORACLE_FAILS: std::sync::Mutex<Vec<String>> = std::sync::Mutex::new(Vec::new());

/// Grapheme cluster boundaries of a text straight from the segmentation library, in the hooks' encoding.
pub fn grapheme_ranges(text: &str) -> Vec<u8> {
    use bstr::ByteSlice;
    let mut out = Vec::new();
    for (a, b, _) in text.as_bytes().grapheme_indices() {
        out.extend_from_slice(&(a as u32).to_le_bytes());
        out.extend_from_slice(&(b as u32).to_le_bytes());
    }
    out
}

fn library_result(kind: &str, param: &str, input: &[u8]) -> Option<Vec<u8>> {
    use unicode_normalization::UnicodeNormalization;
    let text = std::str::from_utf8(input).ok()?;
    match (kind, param) {
        ("casefold", "lower") => Some(text.to_lowercase().into_bytes()),
        ("casefold", "upper") => Some(text.to_uppercase().into_bytes()),
        ("unicode", "NFC") => Some(text.nfc().collect::<String>().into_bytes()),
        ("unicode", "NFD") => Some(text.nfd().collect::<String>().into_bytes()),
        ("unicode", "NFKC") => Some(text.nfkc().collect::<String>().into_bytes()),
        ("unicode", "NFKD") => Some(text.nfkd().collect::<String>().into_bytes()),
        ("graphemes", "") => Some(grapheme_ranges(text)),
        ("find_iter", pattern) => {
            // all non-overlapping matches, leftmost first, as the regex engine itself enumerates them
            let re = fancy_regex::Regex::new(pattern).ok()?;
            let mut out = Vec::new();
            for m in re.find_iter(text) {
                let m = m.ok()?;
                out.extend_from_slice(&(m.start() as u32).to_le_bytes());
                out.extend_from_slice(&(m.end() as u32).to_le_bytes());
            }
            Some(out)
        }
        ("replace_all", both) => {
            let (pattern, replacement) = both.split_once('\u{0}')?;
            let re = fancy_regex::Regex::new(pattern).ok()?;
            Some(re.replace_all(text, replacement).into_owned().into_bytes())
        }
        _ => None,
    }
}

pub fn oracle_words() -> String {
    let calls = kitoken::verif::take();
    let mut seen = std::collections::HashSet::new();
    let mut s = String::new();
    for c in calls {
        // the assumptions of C18's theorems about the regex engine (`ExtSane`), checked on every recorded call:
        // matches are in order, do not overlap, lie inside the text and on character boundaries
        if c.kind == "find_iter" {
            let text = std::str::from_utf8(&c.input).ok();
            let mut last = 0usize;
            let mut sane = c.output.len() % 8 == 0;
            for ch in c.output.chunks_exact(8) {
                let a = u32::from_le_bytes([ch[0], ch[1], ch[2], ch[3]]) as usize;
                let b = u32::from_le_bytes([ch[4], ch[5], ch[6], ch[7]]) as usize;
                sane &= a >= last && a <= b && b <= c.input.len() && text.map(|t| t.is_char_boundary(a) && t.is_char_boundary(b)).unwrap_or(false);
                last = b.max(last);
            }
            if !sane {
                let line = format!("IMPLEQ oracle-sanity find_iter {} {} :: DIFF recorded matches are not ordered, disjoint, in bounds and on character boundaries: {}", hex(c.param.as_bytes()), hex(&c.input), hex(&c.output));
                let mut fails = ORACLE_FAILS.lock().unwrap();
                if fails.len() < 200 && !fails.contains(&line) {
                    fails.push(line);
                }
            }
        }
        if let Some(lib) = library_result(c.kind, &c.param, &c.input) {
            if lib != c.output {
                let line = format!(
                    "IMPLEQ oracle-integrity {} {} {} :: DIFF library=[{}] recorded=[{}]",
                    c.kind,
                    c.param,
                    hex(&c.input),
                    hex(&lib),
                    hex(&c.output)
                );
                let mut fails = ORACLE_FAILS.lock().unwrap();
                if fails.len() < 200 && !fails.contains(&line) {
                    fails.push(line);
                }
            }
        }
        let w = format!(" ORA:{}:{}:{}:{}", c.kind, hex(c.param.as_bytes()), hex(&c.input), hex(&c.output));
        if seen.insert(w.clone()) {
            s.push_str(&w);
        }
    }
    s
}

pub fn enc_answer(tok: &Kitoken, text: &str, specials: bool) -> (String, String) {
    kitoken::verif::start();
    let r = guarded(|| tok.encode(text, specials));
    let ora = oracle_words();
    let a = match r {
        Some(Ok(ids)) => format!("OK {}", ids_str(&ids)),
        Some(Err(EncodeError::InvalidPiece(p))) => format!("ERR piece {}", hex(&p)),
        Some(Err(_)) => "ERR other".into(),
        None => "PANIC".into(),
    };
    (a, ora)
}
pub fn ids_str(v: &[u32]) -> String {
    ids(v)
}
pub fn dec_answer(tok: &Kitoken, tokens: &[u32], specials: bool) -> (String, String) {
    kitoken::verif::start();
    let r = guarded(|| tok.decode(tokens, specials));
    let ora = oracle_words();
    let a = match r {
        Some(Ok(b)) => format!("OK {}", hex(&b)),
        Some(Err(DecodeError::InvalidToken(t))) => format!("ERR token {}", t),
        Some(Err(_)) => "ERR other".into(),
        None => "PANIC".into(),
    };
    (a, ora)
}
pub fn enc_line(op: &str, tk: &Tk, text: &str, specials: bool) -> Option<String> {
    let tok = tk.tok.as_ref()?;
    let (a, ora) = enc_answer(tok, text, specials);
    Some(format!("{} {} {} {}{} :: {}", op, tk.slot, specials as u8, hex(text.as_bytes()), ora, a))
}
pub fn dec_line(tk: &Tk, tokens: &[u32], specials: bool) -> Option<String> {
    let tok = tk.tok.as_ref()?;
    let (a, ora) = dec_answer(tok, tokens, specials);
    Some(format!("DEC {} {} {}{} :: {}", tk.slot, specials as u8, ids(tokens), ora, a))
}

/// The shipped model files that can be loaded (emptied files are skipped), as (name, path).
pub fn shipped_models() -> Vec<(String, std::path::PathBuf)> {
    let root = std::path::Path::new("/repo/tests/models");
    let mut v = Vec::new();
    let mut push = |p: std::path::PathBuf| {
        if let Ok(m) = std::fs::metadata(&p) {
            if m.is_file() && m.len() > 0 {
                let rel = p.strip_prefix(root).unwrap().to_string_lossy().replace('/', ":");
                v.push((rel, p));
            }
        }
    };
    push(root.join("llama2.kit"));
    for dir in ["sentencepiece", "tekken", "tiktoken", "tokenizers"] {
        let mut files: Vec<_> = match std::fs::read_dir(root.join(dir)) {
            Ok(rd) => rd.filter_map(|e| e.ok()).map(|e| e.path()).collect(),
            Err(_) => Vec::new(),
        };
        files.sort();
        for f in files {
            push(f);
        }
    }
    v
}
