//! Pipeline-level correspondence through `Kitoken::encode` / `decode`:
//! C01 (round trip, RT ops), C02 (spelling, ENC2), C07 (specials, ENC7), C09 (independence, ENC9 and
//! the reference composition REF9), C18 (no crash, ENC18 / IMPLONLY).
use crate::defs::*;
use crate::gen::*;
use crate::rng::Rng;
use crate::sink::Sink;
use crate::util::*;
use kitoken::*;

const SPECIAL_TEXTS: &[&str] = &["<s>", "</s>", "<pad>", "<|x|>", "[INST]", "<s", "<s>>", "<S>", "< s>", "▁<s>", "<unk>", "é<"];

/// A generated well-formed definition exercising the whole configuration surface.
pub fn gen_full_definition(rng: &mut Rng, byte_complete: bool, identity_norm: bool) -> Definition {
    let kind = if byte_complete {
        *rng.pick(&[Kind::BpeBytes, Kind::BpeBytes, Kind::BpeChars, Kind::Unigram])
    } else {
        *rng.pick(&[Kind::BpeBytes, Kind::BpeChars, Kind::Unigram, Kind::WordPiece])
    };
    let mut alphabet: Vec<char> = rng.pick(ALPHABETS).to_vec();
    if !alphabet.contains(&' ') {
        alphabet.push(' ');
    }
    let eow = if !byte_complete && matches!(kind, Kind::BpeBytes | Kind::BpeChars) && rng.chance(1, 3) {
        Some(rng.pick(&["</w>", "_"]).to_string())
    } else {
        None
    };
    let prefix = if kind == Kind::WordPiece { Some(rng.pick(&["##", "@@"]).to_string()) } else { None };
    let mut fallback = match rng.below(4) {
        0 => vec![Fallback::Unknown, Fallback::Skip],
        1 => vec![Fallback::Skip],
        2 => vec![Fallback::Bytes, Fallback::Unknown, Fallback::Skip],
        _ => vec![Fallback::Unknown],
    };
    if byte_complete && kind != Kind::BpeBytes {
        fallback = vec![Fallback::Bytes, Fallback::Skip];
    }
    if kind == Kind::WordPiece {
        fallback.retain(|f| *f != Fallback::Bytes);
    }
    let spec = DefSpec {
        kind,
        alphabet: alphabet.clone(),
        holes: if byte_complete { 0 } else { rng.range(0, 2) },
        all_bytes: byte_complete,
        merges: rng.range(0, 30),
        eow,
        prefix,
        fallback,
        // mostly with an unknown token; sometimes none although `Unknown` is in the fallback list (then that
        // entry does not apply and no other special may stand in for it)
        unknown: if byte_complete { rng.chance(1, 2) } else { rng.chance(5, 6) },
        max_word_chars: if rng.chance(1, 4) { rng.range(1, 12) as u32 } else { 0 },
        ties: rng.chance(1, 2),
    };
    let mut def = gen_definition(rng, &spec);
    for s in def.specials.iter_mut() {
        s.bytes = b"<unk>".to_vec();
    }
    // WordPiece: a continuation entry longer than every word-initial entry
    if let (Model::WordPiece { vocab, .. }, Some(p)) = (&mut def.model, &spec.prefix) {
        if rng.chance(1, 2) {
            let initial: Vec<Vec<u8>> = vocab.iter().filter(|t| !t.bytes.starts_with(p.as_bytes())).map(|t| t.bytes.clone()).collect();
            if !initial.is_empty() {
                let mut body = Vec::new();
                for _ in 0..rng.range(2, 4) {
                    let piece: &Vec<u8> = rng.pick(&initial[..]);
                    body.extend_from_slice(piece);
                }
                let mut t = p.as_bytes().to_vec();
                t.extend_from_slice(&body);
                if std::str::from_utf8(&t).is_ok() && !vocab.iter().any(|x| x.bytes == t) {
                    let id = vocab.iter().map(|x| x.id).max().unwrap_or(0) + 1;
                    vocab.push(Token { id, bytes: t });
                }
            }
        }
    }
    // specials of all kinds, extracted and not, incl. look-alikes
    let nspecial = rng.range(0, 5);
    let mut next_id = 8_000_000u32;
    for i in 0..nspecial {
        let text = rng.pick(SPECIAL_TEXTS).to_string();
        if def.specials.iter().any(|s| s.bytes == text.as_bytes()) {
            continue;
        }
        let kind = match rng.below(4) {
            0 => SpecialTokenKind::Priority,
            _ => SpecialTokenKind::Control,
        };
        def.specials.push(SpecialToken {
            id: next_id,
            bytes: text.into_bytes(),
            kind,
            ident: None,
            score: i as f32,
            extract: rng.chance(1, 2),
        });
        next_id += 1;
    }
    def.specials.sort();
    // normalization
    if !identity_norm {
        match rng.below(4) {
            0 => {
                // SentencePiece style marker
                def.config.normalization.push(Normalization::Replace { pattern: " ".into(), replacement: "▁".into() });
                def.config.normalization.push(Normalization::Extend { character: '▁', left: 1, right: 0, pad: false });
                def.config.decoding.push(Decoding::Strip { character: '▁', left: 1, right: 0 });
                def.config.decoding.push(Decoding::Replace { pattern: "▁".into(), replacement: " ".into() });
            }
            1 => {
                def.config.normalization.push(Normalization::Conditional {
                    condition: NormalizationCondition::StartOfText,
                    normalization: Box::new(Normalization::Prepend { prepend: "▁".into() }),
                });
                def.config.normalization.push(Normalization::Replace { pattern: " ".into(), replacement: "▁".into() });
                def.config.decoding.push(Decoding::Replace { pattern: "▁".into(), replacement: " ".into() });
                def.config.decoding.push(Decoding::Strip { character: ' ', left: 1, right: 0 });
            }
            2 => {
                if !byte_complete {
                    def.config.normalization.push(Normalization::Strip { character: ' ', left: u32::MAX, right: u32::MAX });
                    def.config.normalization.push(Normalization::Collapse { character: ' ' });
                    def.config.normalization.push(Normalization::CaseFold { upper: false });
                }
            }
            _ => {
                if !byte_complete {
                    def.config.normalization.push(Normalization::Unicode { scheme: UnicodeNormalization::NFKC });
                    def.config.normalization.push(Normalization::NMT);
                }
            }
        }
    }
    // split
    match rng.below(6) {
        0 => {}
        1 => def.config.split.push(Split::Pattern { pattern: '▁'.into(), behavior: SplitBehavior::MergeRight }),
        2 => def.config.split.push(Split::Pattern { pattern: ' '.into(), behavior: *rng.pick(&[SplitBehavior::Isolate, SplitBehavior::MergeLeft, SplitBehavior::MergeRight, SplitBehavior::Merge]) }),
        3 => def.config.split.push(Split::Pattern {
            pattern: Regex::new(r"'(?:[sdmt]|ll|ve|re)|\s?\p{L}+|\s?\p{N}+|\s?[^\s\p{L}\p{N}]+").unwrap().into(),
            behavior: SplitBehavior::Isolate,
        }),
        4 => {
            def.config.split.push(Split::Pattern { pattern: Regex::new(r"\s+").unwrap().into(), behavior: if byte_complete { SplitBehavior::Isolate } else { SplitBehavior::Remove } });
            def.config.split.push(Split::Pattern { pattern: "é".into(), behavior: SplitBehavior::Isolate });
        }
        _ => def.config.split.push(Split::Pattern { pattern: Regex::new(r"▁+").unwrap().into(), behavior: SplitBehavior::MergeLeft }),
    }
    // processing (never on byte-complete round-trip definitions)
    if !byte_complete && rng.chance(1, 4) {
        let unk = def.specials.iter().find(|s| s.kind == SpecialTokenKind::Unknown).map(|s| s.id).unwrap_or(0);
        def.config.processing.push(match rng.below(4) {
            0 => Processing::Collapse { id: unk },
            1 => Processing::Strip { id: unk, left: rng.range(0, 3) as u32, right: rng.range(0, 3) as u32 },
            2 => Processing::Truncate {
                length: rng.range(0, 12) as u32,
                stride: rng.range(0, 5) as u32,
                direction: if rng.chance(1, 2) { ProcessingDirection::Left } else { ProcessingDirection::Right },
            },
            _ => Processing::Pad {
                id: 7_777_777,
                length: rng.range(0, 12) as u32,
                stride: rng.range(0, 5) as u32,
                direction: if rng.chance(1, 2) { ProcessingDirection::Left } else { ProcessingDirection::Right },
            },
        });
    }
    def
}

/// Characters whose UTF-8 bytes collide with the Latin-1 code or the bytes of the split characters used
/// by `c18_spice` (continuation byte 0xA9 in 'é'/'©'/U+07E9, lead byte 0xE9 in U+9000, 0xDF in U+07E9).
const COLLIDING: &[char] = &['a', 'é', '©', '\u{9000}', '\u{07e9}', 'ß', '\u{a0}', ' ', '▁', '😀', '語'];

/// C18: "every split behaviour with multi-byte patterns": extra split steps with character and string
/// patterns over one-, two-, three- and four-byte characters and all six behaviours.
pub fn c18_spice(rng: &mut Rng, def: &mut Definition) {
    let behaviors = [
        SplitBehavior::Match,
        SplitBehavior::Remove,
        SplitBehavior::Isolate,
        SplitBehavior::Merge,
        SplitBehavior::MergeLeft,
        SplitBehavior::MergeRight,
    ];
    // normalization and decoding steps with multi-byte characters and boundary parameters: the texts of the C18
    // alphabet start and end with these characters often enough
    for _ in 0..rng.range(0, 2) {
        let c = *rng.pick(&['é', '©', 'ß', '\u{a0}', '▁', '語', '😀', ' ']);
        let n = *rng.pick(&[0u32, 1, 2, 3, u32::MAX]);
        let m = *rng.pick(&[0u32, 1, 2, 5, u32::MAX]);
        let step = match rng.below(5) {
            0 => Normalization::Strip { character: c, left: n, right: m },
            1 => Normalization::Extend { character: c, left: n.min(3), right: m.min(3), pad: rng.chance(1, 2) },
            2 => Normalization::Collapse { character: c },
            3 => Normalization::Replace { pattern: c.into(), replacement: "".into() },
            _ => Normalization::Conditional { condition: NormalizationCondition::EndOfText, normalization: Box::new(Normalization::Strip { character: c, left: 0, right: m }) },
        };
        def.config.normalization.push(step);
        if rng.chance(1, 2) {
            def.config.decoding.push(match rng.below(3) {
                0 => Decoding::Strip { character: c, left: n, right: m },
                1 => Decoding::Extend { character: c, left: n.min(3), right: m.min(3), pad: rng.chance(1, 2) },
                _ => Decoding::Collapse { character: c },
            });
        }
    }
    for _ in 0..rng.range(1, 2) {
        let c = *rng.pick(&['é', '©', 'ß', '\u{a0}', '\u{ff}', '\u{80}', '▁', '語', '😀', ' ']);
        let pattern: SplitPattern = if rng.chance(2, 3) { c.into() } else { c.to_string().as_str().into() };
        def.config.split.push(Split::Pattern { pattern, behavior: *rng.pick(&behaviors) });
    }
}

/// One unbroken piece of more than 192 units (the heap merge strategy of the byte-pair encoder): a run
/// over a small alphabet with a word-like tail.
pub fn long_piece(rng: &mut Rng) -> String {
    let alphabet: &[char] = *rng.pick(&[&['a'][..], &['a', 'b'][..], &['a', 'b', 'c'][..], &['a', 'b', 'é'][..], &['x', 'ß', '語'][..]]);
    let n = rng.range(193, 330);
    let mut s: String = if rng.chance(1, 2) { std::iter::repeat(alphabet[0]).take(n).collect() } else { (0..n).map(|_| *rng.pick(alphabet)).collect() };
    s.push_str(*rng.pick(&["", "ing", "ab", "abc", "ba", "tion", "é", "b"]));
    s
}

pub fn text_for_pub(rng: &mut Rng, def: &Definition) -> String {
    text_for_wide(rng, def, true, true)
}

fn text_for(rng: &mut Rng, def: &Definition, alphabet_bias: bool) -> String {
    text_for_wide(rng, def, alphabet_bias, false)
}

fn text_for_wide(rng: &mut Rng, def: &Definition, alphabet_bias: bool, wide: bool) -> String {
    let mut s = String::new();
    let n = rng.range(0, 6);
    for _ in 0..n {
        match rng.below(8) {
            0 | 1 => {
                if !def.specials.is_empty() {
                    let sp = rng.pick(&def.specials);
                    s.push_str(&String::from_utf8_lossy(&sp.bytes));
                }
            }
            2 if rng.chance(1, 2) => {
                // a word spelled from vocabulary entries (continuation prefixes and suffixes removed): pieces that the
                // vocabulary can cover in more than one way
                let vocab = def.model.vocab();
                if !vocab.is_empty() {
                    for _ in 0..rng.range(1, 4) {
                        let t = rng.pick(&vocab[..]);
                        let mut b = &t.bytes[..];
                        for pre in ["##", "@@"] {
                            if b.starts_with(pre.as_bytes()) {
                                b = &b[pre.len()..];
                            }
                        }
                        s.push_str(&String::from_utf8_lossy(b).replace("</w>", ""));
                    }
                }
            }
            2 => s.push_str(*rng.pick(SPECIAL_TEXTS)),
            3 => s.push_str(&random_text(rng, 2)),
            4 => s.push(' '),
            _ => {
                if wide && rng.chance(1, 2) {
                    s.push_str(&random_string(rng, COLLIDING, 10))
                } else if alphabet_bias {
                    s.push_str(&random_string(rng, &['a', 'b', 'c', 'é', ' ', '▁', '語', 'x', 'ß'], 10))
                } else {
                    s.push_str(&random_text(rng, 2))
                }
            }
        }
    }
    s
}

pub fn rt_line(tk: &Tk, text: &str, specials: bool) -> Option<String> {
    let tok = tk.tok.as_ref()?;
    kitoken::verif::start();
    let r = guarded(|| match tok.encode(text, specials) {
        Ok(ids) => match tok.decode(&ids, specials) {
            Ok(b) => format!("OK {} {}", ids_s(&ids), hex(&b)),
            Err(DecodeError::InvalidToken(t)) => format!("ERR token {}", t),
            Err(_) => "ERR other".into(),
        },
        Err(EncodeError::InvalidPiece(p)) => format!("ERR piece {}", hex(&p)),
        Err(_) => "ERR other".into(),
    });
    let ora = oracle_words();
    let a = r.unwrap_or_else(|| "PANIC".into());
    Some(format!("RT {} {} {}{} :: {}", tk.slot, specials as u8, hex(text.as_bytes()), ora, a))
}
fn ids_s(v: &[u32]) -> String {
    ids(v)
}

/// The reference composition of C09 through the public API only: normalize the whole text, split it,
/// encode every piece alone on a tokenizer stripped of normalization / split / specials / processing,
/// concatenate, post-process. Only meaningful when the text contains no special-token string.
pub fn ref9_line(tk: &Tk, stripped: &Kitoken, text: &str) -> Option<String> {
    kitoken::verif::start();
    let def = &tk.def;
    let r = guarded(|| -> Result<Vec<u32>, String> {
        let mut t = std::borrow::Cow::Borrowed(text);
        if !text.is_empty() {
            def.config.normalize(&mut t, 0..usize::MAX);
        }
        let mut out = Vec::new();
        for (a, b) in def.config.split(&t) {
            if b > a {
                match stripped.encode(&t[a..b], false) {
                    Ok(ids) => out.extend(ids),
                    Err(EncodeError::InvalidPiece(p)) => return Err(format!("ERR piece {}", hex(&p))),
                    Err(_) => return Err("ERR other".into()),
                }
            }
        }
        def.config.process(&mut out);
        Ok(out)
    });
    let ora = oracle_words();
    let a = match r {
        Some(Ok(ids)) => format!("OK {}", ids_s(&ids)),
        Some(Err(e)) => e,
        None => "PANIC".into(),
    };
    Some(format!("REF9 {} 0 {}{} :: {}", tk.slot, hex(text.as_bytes()), ora, a))
}

fn strip_for_ref(def: &Definition) -> Definition {
    let mut d = def.clone();
    d.config.normalization.clear();
    d.config.split.clear();
    d.config.processing.clear();
    d.specials.retain(|s| s.kind == SpecialTokenKind::Unknown);
    for s in d.specials.iter_mut() {
        s.extract = false;
        s.bytes = b"\x01<unk>\x01".to_vec();
    }
    d
}

/// True if the text, before or after normalization, contains a special-token string (then the
/// reference composition through `normalize`/`split` alone is not comparable).
fn specials_in_play(def: &Definition, text: &str) -> bool {
    if contains_special(def, text) {
        return true;
    }
    let normalized = guarded(|| {
        let mut t = std::borrow::Cow::Borrowed(text);
        if !text.is_empty() {
            def.config.normalize(&mut t, 0..usize::MAX);
        }
        t.into_owned()
    });
    match normalized {
        Some(t) => contains_special(def, &t),
        None => true,
    }
}

fn contains_special(def: &Definition, text: &str) -> bool {
    // also after normalization a special string could appear; be conservative: any '<', '[' or special prefix
    def.specials.iter().any(|s| {
        let st = String::from_utf8_lossy(&s.bytes).to_string();
        !st.is_empty() && (text.contains(&st) || text.to_lowercase().contains(&st.to_lowercase()))
    }) || text.contains('<') || text.contains('[')
}

const BYTE_COMPLETE: &[&str] = &["cl100k", "o200k", "p50k", "gpt2", "gpt_neox", "mpt", "modernbert", "llama2", "mistral01", "mistral03", "nerdstash"];

pub fn gen(prop: &str, rng: &mut Rng, thorough: bool, out: &mut Sink) {
    let op = match prop {
        "C02" => "ENC2",
        "C07" => "ENC7",
        "C09" => "ENC9",
        "C18" => "ENC18",
        _ => "RT",
    };
    let mut slot = 0usize;
    // ---- generated definitions
    let ndefs = if thorough { 1500 } else { 120 };
    let ntexts = if thorough { 150 } else { 40 };
    for d in 0..ndefs {
        // C02 too: some byte-complete vocabularies, so that byte fallback of characters without an entry succeeds
        // and the ids have to spell the text byte by byte
        let byte_complete = prop == "C01" || (prop == "C02" && d % 6 == 5);
        let mut def = gen_full_definition(rng, byte_complete, byte_complete && d % 2 == 0);
        if prop == "C18" && d % 2 == 1 {
            c18_spice(rng, &mut def);
        }
        if prop == "C07" && d % 3 == 2 {
            // the list of specials is the split priority as given: it need not be sorted by kind
            crate::gen::shuffle(rng, &mut def.specials);
        }
        if prop == "C18" && d % 12 == 5 {
            // outside `LoadableWF` (the hypothesis of `loaded_tokenizer_never_panics`) and outside the model: the
            // constructor accepts a special token with an empty text, which then matches at every position. The real
            // code is run at the excluded point, implementation only.
            def.specials.push(SpecialToken { id: 7_000_000, bytes: Vec::new(), kind: SpecialTokenKind::Priority, ident: None, score: 9.0, extract: d % 24 == 5 });
            out.count("defs_with_empty_special");
            let mut lines = Vec::new();
            if let Some(Ok(tok)) = guarded(|| Kitoken::from_definition(def.clone())) {
                for _ in 0..ntexts {
                    let text = text_for_wide(rng, &def, true, true);
                    for s in [false, true] {
                        let r = guarded(|| tok.encode(&text, s).map(|ids| tok.decode(&ids, s).map(|b| b.len())));
                        let a = match r {
                            Some(Ok(Ok(len))) => format!("OK {}", len),
                            Some(Ok(Err(_))) => "ERR decode".into(),
                            Some(Err(_)) => "ERR encode".into(),
                            None => "PANIC".into(),
                        };
                        lines.push(format!("IMPLONLY 0 empty-special{} {} {} :: {}", d, s as u8, hex(text.as_bytes()), a));
                    }
                }
            }
            out.group(lines);
            continue;
        }
        let mut lines = Vec::new();
        let tk = load(slot, "generated", def, &mut lines);
        slot += 1;
        if tk.tok.is_none() {
            out.count("defs_failed_init");
            out.group(lines);
            continue;
        }
        out.count(match &tk.def.model {
            Model::BytePair { chars: false, .. } => "defs_bpe_bytes",
            Model::BytePair { chars: true, .. } => "defs_bpe_chars",
            Model::Unigram { .. } => "defs_unigram",
            _ => "defs_wordpiece",
        });
        let stripped = if prop == "C09" { guarded(|| Kitoken::from_definition(strip_for_ref(&tk.def)).ok()).flatten() } else { None };
        if prop == "C18" {
            // the clean-up steps at their boundary: texts that consist of a step's character only (fewer copies than
            // the step removes from both sides together, as many, more), encoded and decoded on the implementation
            if let Some(tok) = &tk.tok {
                let chars: Vec<char> = tk.def.config.decoding.iter().filter_map(|d| match d {
                    Decoding::Strip { character, .. } | Decoding::Extend { character, .. } | Decoding::Collapse { character } => Some(*character),
                    _ => None,
                }).collect();
                for c in chars {
                    for k in 1..=5usize {
                        let text: String = std::iter::repeat(c).take(k).collect();
                        let r = guarded(|| tok.encode(&text, false).map(|ids| tok.decode(&ids, true).map(|b| b.len())));
                        let a = match r {
                            Some(Ok(Ok(len))) => format!("OK {}", len),
                            Some(Ok(Err(_))) => "ERR decode".into(),
                            Some(Err(_)) => "ERR encode".into(),
                            None => "PANIC".into(),
                        };
                        lines.push(format!("IMPLONLY {} cleanup-boundary {} :: {}", tk.slot, hex(text.as_bytes()), a));
                        out.count("implonly_cleanup_boundary");
                    }
                }
            }
        }
        // WordPiece with a word length limit: encodable words of multi-byte characters whose character count is
        // within the limit while their byte count is above it (the limit counts characters)
        if let Model::WordPiece { vocab, max_word_chars } = &tk.def.model {
            if *max_word_chars > 0 && prop != "C01" {
                let pre = tk.def.config.templates.iter().find(|t| t.position == InsertionPosition::WordContinuation).map(|t| t.content.clone()).unwrap_or_default();
                let multi = |b: &[u8]| std::str::from_utf8(b).map(|t| !t.is_empty() && t.len() > t.chars().count()).unwrap_or(false);
                let starts: Vec<String> = vocab.iter().filter(|t| (pre.is_empty() || !t.bytes.starts_with(pre.as_bytes())) && multi(&t.bytes)).map(|t| String::from_utf8_lossy(&t.bytes).to_string()).collect();
                let conts: Vec<String> = vocab.iter().filter(|t| !pre.is_empty() && t.bytes.starts_with(pre.as_bytes()) && multi(&t.bytes[pre.len()..])).map(|t| String::from_utf8_lossy(&t.bytes[pre.len()..]).to_string()).collect();
                for _ in 0..6 {
                    if starts.is_empty() {
                        break;
                    }
                    let mut w = rng.pick(&starts).clone();
                    for _ in 0..12 {
                        if conts.is_empty() {
                            break;
                        }
                        let c = rng.pick(&conts);
                        if w.chars().count() + c.chars().count() > *max_word_chars as usize {
                            break;
                        }
                        w.push_str(c);
                    }
                    if w.chars().count() <= *max_word_chars as usize && w.len() > *max_word_chars as usize {
                        for s in [false, true] {
                            if let Some(l) = enc_line(op, &tk, &w, s) {
                                lines.push(l);
                            }
                        }
                        out.count("wordpiece_words_within_char_limit_above_byte_limit");
                    }
                }
            }
        }
        for _ in 0..ntexts {
            let mut text = text_for_wide(rng, &tk.def, true, prop == "C18");
            if rng.chance(1, 8) {
                text = long_piece(rng);
                out.count("long_single_piece_texts");
            }
            if prop == "C01" {
                // the marker character itself is excluded by the property for marker-normalizing tokenizers
                text = text.replace('▁', "_");
            }
            for s in [false, true] {
                if prop == "C01" {
                    if let Some(l) = rt_line(&tk, &text, s) {
                        lines.push(l);
                    }
                } else if let Some(l) = enc_line(op, &tk, &text, s) {
                    lines.push(l);
                }
            }
            if let Some(st) = &stripped {
                if !specials_in_play(&tk.def, &text) {
                    if let Some(l) = ref9_line(&tk, st, &text) {
                        out.count("ref9_cases");
                        lines.push(l);
                    }
                }
            }
        }
        out.group(lines);
    }
    // ---- byte-pair vocabularies that are NOT closed under their merges (pairs present, the triple missing) on
    // single unbroken pieces long enough for the heap strategy: a merge made without a vocabulary lookup shows as
    // an unknown id, a dropped stretch or an error although every unit is an entry
    if prop == "C02" {
        let nopen = if thorough { 400 } else { 40 };
        for v in 0..nopen {
            let letters = ['a', 'b', 'c'];
            let mut toks: Vec<String> = letters.iter().map(|c| c.to_string()).collect();
            let mut pairs: Vec<String> = Vec::new();
            for x in letters {
                for y in letters {
                    pairs.push(format!("{}{}", x, y));
                }
            }
            shuffle(rng, &mut pairs);
            let npairs = rng.range(2, 6);
            toks.extend(pairs.into_iter().take(npairs));
            if rng.chance(1, 3) {
                toks.push(format!("{}{}{}", rng.pick(&letters), rng.pick(&letters), rng.pick(&letters)));
            }
            // ranks = positions: single letters first, then the pairs in their shuffled order
            let vocab: Vocab = toks.iter().enumerate().map(|(i, t)| Token { id: i as u32, bytes: t.as_bytes().to_vec() }).collect();
            let mut config = Configuration::default();
            config.fallback = match v % 4 {
                0 => vec![Fallback::Unknown],
                1 => vec![Fallback::Skip],
                2 => vec![],
                _ => vec![Fallback::Unknown, Fallback::Skip],
            };
            let specials = vec![SpecialToken { id: 5_000_000, bytes: b"<unk>".to_vec(), kind: SpecialTokenKind::Unknown, ident: None, score: 0.0, extract: false }];
            let def = Definition { meta: Metadata::default(), model: Model::BytePair { vocab, chars: v % 2 == 0 }, specials, config };
            let mut lines = Vec::new();
            let tk = load(slot, "open-merges", def, &mut lines);
            slot += 1;
            if tk.tok.is_none() {
                out.group(lines);
                continue;
            }
            out.count("defs_bpe_open_merges");
            for _ in 0..10 {
                let n = rng.range(180, 260);
                let text: String = (0..n).map(|_| *rng.pick(&letters)).collect();
                if let Some(l) = enc_line(op, &tk, &text, false) {
                    lines.push(l);
                }
            }
            out.group(lines);
        }
    }
    // ---- tokenizers converted from generated Tokenizers sources that walk through every normalizer, pre-tokenizer,
    // post-processor and decoder variant of the converter (C18: "loaded successfully from a well-formed source")
    if prop == "C18" || prop == "C02" || prop == "C09" {
        let nzoo = if thorough { 600 } else { 60 };
        for v in 0..nzoo {
            let bytes = crate::c17::hf_zoo(rng, v);
            let def = match guarded(|| Definition::from_tokenizers_slice(&bytes).ok()).flatten() {
                Some(d) => d,
                None => {
                    out.count("zoo_sources_rejected");
                    continue;
                }
            };
            let mut lines = Vec::new();
            let tk = load(slot, "zoo", def, &mut lines);
            slot += 1;
            if tk.tok.is_none() {
                out.count("zoo_defs_failed_init");
                out.group(lines);
                continue;
            }
            out.count("zoo_tokenizers");
            for _ in 0..(ntexts / 2) {
                let text = text_for_wide(rng, &tk.def, true, true);
                for s in [false, true] {
                    if let Some(l) = enc_line(op, &tk, &text, s) {
                        lines.push(l);
                    }
                }
            }
            out.group(lines);
        }
    }
    // ---- shipped models
    let nship = if thorough { 1500 } else { 60 };
    let corpus: Vec<String> = ["small_input.txt", "mixed_input.txt", "utf8_input.txt"]
        .iter()
        .flat_map(|f| std::fs::read_to_string(format!("/repo/tests/data/{}", f)).unwrap_or_default().lines().map(|l| l.to_string()).collect::<Vec<_>>())
        .filter(|l| l.len() < 600)
        .collect();
    for (name, path) in shipped_models() {
        if prop == "C01" && !BYTE_COMPLETE.iter().any(|b| name.contains(b)) {
            continue;
        }
        let def = match Definition::from_file(&path) {
            Ok(d) => d,
            Err(_) => continue,
        };
        let marker_model = def.config.normalization.iter().any(|n| format!("{:?}", n).contains('▁'));
        let nfc_model = def.config.normalization.iter().any(|n| matches!(n, Normalization::Unicode { .. }));
        let mut lines = Vec::new();
        let tk = load(slot, &name, def, &mut lines);
        slot += 1;
        let stripped = if prop == "C09" { guarded(|| Kitoken::from_definition(strip_for_ref(&tk.def)).ok()).flatten() } else { None };
        if prop == "C01" {
            // witness of known finding F21: two adjacent copies of a special whose id the declared
            // post-processing collapses
            for p in &tk.def.config.processing {
                if let Processing::Collapse { id } = p {
                    if let Some(sp) = tk.def.specials.iter().find(|s| s.id == *id && s.kind != SpecialTokenKind::Control) {
                        let t = String::from_utf8_lossy(&sp.bytes).to_string();
                        if let Some(l) = rt_line(&tk, &format!("a{}{}b", t, t), false) {
                            lines.push(l);
                            out.count("adjacent_collapsed_special_witness");
                        }
                    }
                }
            }
        }
        for k in 0..nship {
            let mut text = match k % 4 {
                0 if k % 16 == 0 => {
                    out.count("long_single_piece_texts");
                    long_piece(rng)
                }
                0 if !corpus.is_empty() => rng.pick(&corpus).clone(),
                1 => text_for(rng, &tk.def, false),
                2 => random_scalar(rng).to_string(),
                _ => random_text(rng, 6),
            };
            if prop == "C01" {
                if marker_model {
                    text = text.replace('▁', "_");
                }
                let _ = nfc_model;
            }
            for s in [false, true] {
                if prop == "C01" {
                    // with special recognition on, only identity-normalizing tokenizers are in the property
                    if s && !tk.def.config.normalization.is_empty() {
                        continue;
                    }
                    if let Some(l) = rt_line(&tk, &text, s) {
                        lines.push(l);
                    }
                } else if let Some(l) = enc_line(op, &tk, &text, s) {
                    lines.push(l);
                }
            }
            if let Some(st) = &stripped {
                if !specials_in_play(&tk.def, &text) {
                    if let Some(l) = ref9_line(&tk, st, &text) {
                        out.count("ref9_cases");
                        lines.push(l);
                    }
                }
            }
        }
        // C18: large adversarial texts on the implementation only
        if prop == "C18" {
            if let Some(tok) = &tk.tok {
                let sizes: &[usize] = if thorough { &[4096, 65536, 262144] } else { &[4096, 32768] };
                for &n in sizes {
                    let texts = [
                        "a".repeat(n),
                        " ".repeat(n),
                        "é".repeat(n / 2),
                        "<|endoftext|".repeat(n / 12),
                        "a ".repeat(n / 2),
                        "\u{0301}".repeat(n / 2),
                        (0..n / 4).map(|_| random_scalar(rng)).collect::<String>(),
                    ];
                    for (ti, t) in texts.iter().enumerate() {
                        let r = guarded(|| tok.encode(t, ti % 2 == 0).map(|ids| tok.decode(&ids, true).map(|b| b.len())));
                        let a = match r {
                            Some(Ok(Ok(len))) => format!("OK {}", len),
                            Some(Ok(Err(_))) => "ERR decode".into(),
                            Some(Err(_)) => "ERR encode".into(),
                            None => "PANIC".into(),
                        };
                        lines.push(format!("IMPLONLY {} big{} {} :: {}", tk.slot, ti, n, a));
                        out.count("implonly_large_texts");
                    }
                }
            }
        }
        out.count("shipped_models");
        out.group(lines);
    }
    if prop == "C18" {
        // decode side: arbitrary ids never crash (covered in depth by C08); a sample here
        out.count("c18_note_decode_covered_by_c08");
    }
}
