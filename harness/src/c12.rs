//! C12 — precompiled character map: blob loader (CMAP_LOAD) and normalization (NORMS on a slot whose
//! configuration is the map alone): the shipped XLNet map and generated double-array tries serialized
//! in the SentencePiece blob layout.
use crate::defs::*;
use crate::gen::*;
use crate::rng::Rng;
use crate::sink::Sink;
use crate::util::*;
use kitoken::*;
use std::collections::BTreeMap;

#[derive(Default)]
struct Node {
    children: BTreeMap<u8, usize>,
    value: Option<u32>,
}

/// Builds a darts-clone style double array for `keys` (key -> offset into the replacement table).
pub fn build_trie(keys: &[(Vec<u8>, u32)]) -> Vec<u32> {
    build_trie_with(keys, false)
}

/// `minimal`: first fit by SLOT as darts-clone does it (the first label goes to the lowest free unit), without
/// padding: the base of a node that ends no key then often lies beyond the last unit of the trie while all its
/// children lie inside — a position that is never looked at.
pub fn build_trie_with(keys: &[(Vec<u8>, u32)], minimal: bool) -> Vec<u32> {
    let mut nodes: Vec<Node> = vec![Node::default()];
    for (k, v) in keys {
        let mut cur = 0;
        for &b in k {
            let next = match nodes[cur].children.get(&b) {
                Some(&n) => n,
                None => {
                    nodes.push(Node::default());
                    let n = nodes.len() - 1;
                    nodes[cur].children.insert(b, n);
                    n
                }
            };
            cur = next;
        }
        nodes[cur].value = Some(*v);
    }
    let mut units: Vec<u32> = vec![0];
    let mut used: Vec<bool> = vec![true];
    // every node gets its own base, otherwise transitions of different nodes with the same label collide
    let mut used_bases: std::collections::HashSet<usize> = Default::default();
    // (node index, position of its unit)
    let mut queue = std::collections::VecDeque::new();
    queue.push_back((0usize, 0usize));
    while let Some((n, pos)) = queue.pop_front() {
        let mut labels: Vec<u8> = nodes[n].children.keys().copied().collect();
        let has_leaf = nodes[n].value.is_some();
        if has_leaf {
            labels.push(0);
        }
        if labels.is_empty() {
            continue;
        }
        let mut base = 1usize;
        let mut slot0 = 1usize;
        // every fourth minimal trie: the root's offset in the extended form (a multiple of 256, bit 9 set)
        let ext_root = minimal && pos == 0 && keys.len() % 4 == 1;
        if ext_root {
            base = 256;
        }
        loop {
            if minimal && !ext_root {
                base = slot0 ^ labels[0] as usize;
            }
            let ok = base != 0 && !used_bases.contains(&base) && labels.iter().all(|&l| {
                let slot = base ^ l as usize;
                slot != pos && (slot >= used.len() || !used[slot])
            });
            if ok {
                break;
            }
            base += if ext_root { 256 } else { 1 };
            slot0 += 1;
        }
        used_bases.insert(base);
        let offset = pos ^ base;
        assert!(offset < (1 << 21));
        for &l in &labels {
            let slot = base ^ l as usize;
            if slot >= units.len() {
                units.resize(slot + 1, 0);
                used.resize(slot + 1, false);
            }
            used[slot] = true;
        }
        if ext_root && offset % 256 == 0 && offset >= 256 {
            units[pos] |= ((offset >> 8) as u32) << 10 | 1 << 9 | (has_leaf as u32) << 8;
        } else {
            units[pos] |= (offset as u32) << 10 | (has_leaf as u32) << 8;
        }
        if has_leaf {
            units[base] = nodes[n].value.unwrap() | (1 << 31);
        }
        for (&l, &child) in &nodes[n].children {
            let slot = base ^ l as usize;
            units[slot] = l as u32;
            queue.push_back((child, slot));
        }
    }
    units
}

pub fn blob_of(units: &[u32], normalized: &[u8]) -> Vec<u8> {
    let mut blob = ((units.len() * 4) as u32).to_le_bytes().to_vec();
    for u in units {
        blob.extend_from_slice(&u.to_le_bytes());
    }
    blob.extend_from_slice(normalized);
    blob
}

fn load_answer(blob: &[u8]) -> String {
    match guarded(|| CharsMap::try_from(blob)) {
        Some(Ok(m)) => {
            let (a, n) = charsmap_parts(&m);
            format!("OK {} {}", hex(&a), hex(&n))
        }
        Some(Err(_)) => "ERR".into(),
        None => "PANIC".into(),
    }
}
pub fn load_line(blob: &[u8]) -> String {
    format!("CMAP_LOAD {} :: {}", hex(blob), load_answer(blob))
}

pub fn norms_answer(def: &Definition, start: usize, to_end: bool, text: &str) -> (String, String) {
    kitoken::verif::start();
    let r = guarded(|| {
        let mut t = std::borrow::Cow::Borrowed(text);
        def.config.normalize(&mut t, start..(if to_end { usize::MAX } else { start + text.len() }));
        t.into_owned()
    });
    let ora = oracle_words();
    match r {
        Some(t) => (format!("OK {}", hex(t.as_bytes())), ora),
        None => ("PANIC".into(), ora),
    }
}
pub fn norms_line(slot: usize, def: &Definition, start: usize, to_end: bool, text: &str) -> String {
    let (a, mut ora) = norms_answer(def, start, to_end, text);
    // a map-only pipeline: the grapheme boundaries the specification needs come from the segmentation library
    // itself when the implementation did not ask for them (a path that bypasses the map must still meet the spec)
    if matches!(def.config.normalization.as_slice(), [Normalization::CharsMap { .. }]) {
        let key = format!(" ORA:graphemes::{}:", hex(text.as_bytes()));
        if !ora.contains(&key) {
            ora.push_str(&format!("{}{}", key, hex(&crate::defs::grapheme_ranges(text))));
        }
    }
    format!("NORMS {} {} {} {}{} :: {}", slot, start, to_end as u8, hex(text.as_bytes()), ora, a)
}

fn map_only_def(map: CharsMap) -> Definition {
    let mut config = Configuration::default();
    config.normalization.push(Normalization::CharsMap { map });
    config.fallback.push(Fallback::Skip);
    Definition {
        meta: Metadata::default(),
        model: Model::BytePair { vocab: vec![Token { id: 0, bytes: b"a".to_vec() }], chars: false },
        specials: Vec::new(),
        config,
    }
}

const KEY_POOL: &[(&str, &str)] = &[
    ("a", "X"), ("é", "e"), ("e\u{0301}", "é"), ("ﬁ", "fi"), ("語", "语"), ("Ａ", "A"), ("a\u{0301}", "á"), ("ab", "Z"),
    ("\u{00a0}", " "), ("\u{200d}", ""), ("😀", ":)"), ("ß", "ss"), ("b", ""), ("abc", "Q"), ("\u{0301}", ""),
];

pub fn gen(rng: &mut Rng, thorough: bool, out: &mut Sink) {
    let mut slot = 0usize;
    // ---- loader: generated blobs incl. minimal sizes and inconsistent size fields
    let nload = if thorough { 20000 } else { 2000 };
    for b in [vec![], vec![0u8], vec![0, 0, 0], vec![0, 0, 0, 0], vec![1, 0, 0, 0], vec![4, 0, 0, 0, 1, 2, 3, 4], vec![3, 0, 0, 0, 9, 9, 9, 7]] {
        out.push(load_line(&b));
    }
    for _ in 0..nload {
        let nunits = rng.range(0, 6);
        let units: Vec<u32> = (0..nunits).map(|_| rng.next() as u32).collect();
        let norm: Vec<u8> = (0..rng.range(0, 6)).map(|_| rng.below(4) as u8 * 40).collect();
        let mut blob = blob_of(&units, &norm);
        match rng.below(6) {
            0 => {
                let k = rng.below(blob.len() + 1);
                blob.truncate(k);
            }
            1 => {
                let v = rng.below(40) as u32;
                blob[..4].copy_from_slice(&v.to_le_bytes());
            }
            2 => blob[3] = 0xff,
            _ => {}
        }
        out.push(load_line(&blob));
    }
    // ---- generated tries
    let ntries = if thorough { 5000 } else { 200 };
    let ntexts = if thorough { 60 } else { 40 };
    let text_chars: Vec<char> = vec!['a', 'b', 'c', 'é', 'e', '\u{0301}', 'ﬁ', '語', 'Ａ', '\u{00a0}', '\u{200d}', '😀', 'ß', ' ', 'x'];
    for _ in 0..ntries {
        let nkeys = rng.range(1, 8);
        let mut normalized: Vec<u8> = Vec::new();
        let mut keys: Vec<(Vec<u8>, u32)> = Vec::new();
        for _ in 0..nkeys {
            let (k, v) = *rng.pick(KEY_POOL);
            if keys.iter().any(|(kk, _)| kk == k.as_bytes()) {
                continue;
            }
            keys.push((k.as_bytes().to_vec(), normalized.len() as u32));
            if rng.chance(1, 4) {
                // a long replacement (the longest of the shipped map has 33 bytes): 20..80 bytes, mixed widths
                let want = rng.range(20, 80);
                let mut long = String::new();
                while long.len() < want {
                    long.push(*rng.pick(&['x', 'y', 'é', '語']));
                }
                normalized.extend_from_slice(long.as_bytes());
            } else {
                normalized.extend_from_slice(v.as_bytes());
            }
            normalized.push(0);
        }
        let units = build_trie_with(&keys, rng.chance(1, 2));
        let blob = blob_of(&units, &normalized);
        out.push(load_line(&blob));
        let map = match CharsMap::try_from(blob.as_slice()) {
            Ok(m) => m,
            Err(_) => continue,
        };
        let def = map_only_def(map);
        let mut lines = Vec::new();
        let tk = load(slot, "generated-map", def, &mut lines);
        let myslot = slot;
        slot += 1;
        for _ in 0..ntexts {
            let text = random_string(rng, &text_chars, 8);
            lines.push(norms_line(myslot, &tk.def, 0, true, &text));
        }
        // each key alone and followed by a combining mark / ZWJ
        for (k, _) in &keys {
            let ks = String::from_utf8(k.clone()).unwrap();
            lines.push(norms_line(myslot, &tk.def, 0, true, &ks));
            lines.push(norms_line(myslot, &tk.def, 0, true, &format!("{}\u{0301}", ks)));
            lines.push(norms_line(myslot, &tk.def, 0, true, &format!("{}\u{200d}{}", ks, ks)));
        }
        out.count("generated_tries");
        out.group(lines);
    }
    // ---- the shipped XLNet map
    for (name, path) in shipped_models() {
        if !name.contains("xlnet") {
            continue;
        }
        let def = match Definition::from_file(&path) {
            Ok(d) => d,
            Err(_) => continue,
        };
        let map = def.config.normalization.iter().find_map(|n| match n {
            Normalization::CharsMap { map } => Some(map.clone()),
            _ => None,
        });
        let Some(map) = map else { continue };
        let def = map_only_def(map);
        let mut lines = Vec::new();
        let tk = load(slot, &name, def, &mut lines);
        let myslot = slot;
        slot += 1;
        let n = if thorough { 1_112_064 } else { 20000 };
        if thorough {
            // every Unicode scalar value alone, and with a combining mark
            for cp in 0..=0x10ffffu32 {
                if let Some(c) = char::from_u32(cp) {
                    lines.push(norms_line(myslot, &tk.def, 0, true, &c.to_string()));
                    if cp % 16 == 0 {
                        lines.push(norms_line(myslot, &tk.def, 0, true, &format!("{}\u{0301}", c)));
                    }
                }
            }
            out.exhaustive.push(format!("NORMS: every Unicode scalar value alone through the shipped XLNet map ({})", name));
        } else {
            for _ in 0..n {
                let c = random_scalar(rng);
                let text = match rng.below(4) {
                    0 => format!("{}\u{0301}", c),
                    1 => format!("a{}b", c),
                    2 => format!("{}\u{200d}{}", c, random_scalar(rng)),
                    _ => c.to_string(),
                };
                lines.push(norms_line(myslot, &tk.def, 0, true, &text));
            }
            // the entries with the longest replacements (Arabic ligatures up to 33 bytes, squared words) explicitly
            for cp in (0xfdf0..=0xfdfcu32).chain(0x3300..=0x3357u32) {
                if let Some(c) = char::from_u32(cp) {
                    lines.push(norms_line(myslot, &tk.def, 0, true, &c.to_string()));
                }
            }
            // the last trie unit (U+2FA1D region) explicitly
            for cp in 0x2fa00..=0x2fa2fu32 {
                if let Some(c) = char::from_u32(cp) {
                    lines.push(norms_line(myslot, &tk.def, 0, true, &c.to_string()));
                }
            }
        }
        out.count("shipped_maps");
        out.group(lines);
    }
}

pub fn run_request(st: &crate::parse::RunState, words: &[&str]) -> Option<(String, String)> {
    let args: Vec<&str> = words.iter().copied().filter(|x| !x.starts_with("ORA:")).collect();
    match args[0] {
        "CMAP_LOAD" => {
            let blob = unhex(args.get(1)?);
            Some((format!("CMAP_LOAD {}", args[1]), load_answer(&blob)))
        }
        "NORMS" => {
            let slot: usize = args.get(1)?.parse().ok()?;
            let def = st.defs.get(&slot)?;
            let start: usize = args.get(2)?.parse().ok()?;
            let to_end = *args.get(3)? == "1";
            let text = String::from_utf8(unhex(args.get(4)?)).ok()?;
            let l = norms_line(slot, def, start, to_end, &text);
            let mut it = l.splitn(2, " :: ");
            Some((it.next()?.to_string(), it.next()?.to_string()))
        }
        _ => None,
    }
}
