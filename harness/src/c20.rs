//! C20 — the Python binding returns exactly what the core library returns.
//!
//! The harness writes one request per (shipped model, binding constructor) with generated texts and id
//! sequences, runs `tools/pydrive.py` against the freshly built extension module (`KVH_PYDIR`), and
//! compares every answer with the core library's answer for the same input:
//! * `IMPLEQ py-… :: OK | DIFF core=[…] binding=[…]` for every call (single, batch, default and explicit
//!   flags, positional and keyword, byte and file round trips, inputs only Python can produce);
//! * `ENC` / `DEC` lines carrying the *binding's* answer, so that the Lean model of the core pipeline is
//!   compared with what Python returned.
use crate::defs::*;
use crate::gen::*;
use crate::rng::Rng;
use crate::sink::Sink;
use crate::util::*;
use kitoken::*;
use serde_json::{json, Value};

fn enc_core(tok: &Kitoken, text: &str, s: bool) -> String {
    match guarded(|| tok.encode(text, s)) {
        Some(Ok(v)) => format!("OK {}", ids(&v)),
        Some(Err(e)) => format!("ERR {}", e),
        None => "PANIC".into(),
    }
}

fn dec_core(tok: &Kitoken, v: &[u32], s: bool) -> String {
    match guarded(|| tok.decode(v, s)) {
        Some(Ok(b)) => format!("OK {}", if b.is_empty() { "-".to_string() } else { hex(&b) }),
        Some(Err(e)) => format!("ERR {}", e),
        None => "PANIC".into(),
    }
}

/// Batch semantics of the binding's model: all answers, or the first error in order.
fn batch(answers: Vec<String>) -> String {
    if let Some(e) = answers.iter().find(|a| !a.starts_with("OK ")) {
        return e.clone();
    }
    format!("OK {}", answers.iter().map(|a| a[3..].to_string()).collect::<Vec<_>>().join(";"))
}

fn flag_json(f: Option<bool>) -> Value {
    match f {
        None => Value::Null,
        Some(b) => Value::Bool(b),
    }
}

struct Planned {
    line_prefix: String,
    core: String,
    /// `Some((slot, s, text-or-ids, is_encode, oracle words))`: also send the binding's answer to the model
    to_model: Option<(usize, bool, String, bool, String)>,
}

pub fn gen(rng: &mut Rng, thorough: bool, out: &mut Sink) {
    let pydir = match std::env::var("KVH_PYDIR") {
        Ok(d) if std::path::Path::new(&d).join("kitoken.abi3.so").exists() => d,
        _ => {
            out.push("IMPLEQ py-build missing :: DIFF the Python extension module is not available (KVH_PYDIR)".into());
            return;
        }
    };
    let work = std::env::current_dir().unwrap();
    let req_path = work.join("py_requests.jsonl");
    let ans_path = work.join("py_answers.jsonl");
    let mut requests: Vec<Value> = Vec::new();
    let mut plans: Vec<(String, String, Vec<Planned>, Vec<String>)> = Vec::new(); // (name, ctor, planned ops, DEF lines)
    let mut slot = 0usize;
    let ntexts = if thorough { 60 } else { 10 };
    for (name, path) in shipped_models() {
        let fmt = name.split(':').next().unwrap_or("").to_string();
        let ctors: Vec<&str> = match fmt.as_str() {
            "sentencepiece" => vec!["bytes", "from_file", "from_sentencepiece", "from_sentencepiece_file"],
            "tokenizers" => vec!["bytes", "from_file", "from_tokenizers", "from_tokenizers_file"],
            "tiktoken" => vec!["bytes", "from_file", "from_tiktoken", "from_tiktoken_file"],
            "tekken" => vec!["bytes", "from_file", "from_tekken", "from_tekken_file"],
            _ => vec!["bytes", "from_file"],
        };
        let def = match Definition::from_file(&path) {
            Ok(d) => d,
            Err(_) => continue,
        };
        let mut def_lines = Vec::new();
        let tk = load(slot, &name, def, &mut def_lines);
        let this_slot = slot;
        slot += 1;
        let tok = match &tk.tok {
            Some(t) => t,
            None => continue,
        };
        let core_bytes = format!("OK {:016x}", crate::c19::fnv(&tok.to_vec()));
        let mut corpus = crate::c19::digest_texts(rng.next() % 100000, ntexts);
        // one large text of many lines (several kilobytes): a wrapper must hand it to the core as one text
        corpus.push((0..170).map(|i| format!("line {} of a long text, with  spaces and words\n", i)).collect::<String>());
        for (ci, ctor) in ctors.iter().enumerate() {
            // quick tier: the full op list on the first two constructors, a short one on the others
            let full = thorough || ci < 2;
            let mut ops: Vec<Value> = Vec::new();
            let mut planned: Vec<Planned> = Vec::new();
            let texts: Vec<String> = if full { corpus.clone() } else { corpus.iter().take(3).cloned().collect() };
            let mut all_ids: Vec<Vec<u32>> = Vec::new();
            for (i, t) in texts.iter().enumerate() {
                let flag = [None, Some(false), Some(true)][i % 3];
                let s = flag.unwrap_or(false);
                let core = enc_core(tok, t, s);
                let ora = if ci == 0 { enc_answer(tok, t, s).1 } else { String::new() };
                ops.push(json!({"op": "encode", "text": hex(t.as_bytes()), "flag": flag_json(flag), "positional": i % 2 == 0}));
                planned.push(Planned {
                    line_prefix: format!("IMPLEQ py-encode {} {} flag={:?} {}", name, ctor, flag, hex(t.as_bytes())),
                    core: core.clone(),
                    to_model: if ci == 0 { Some((this_slot, s, hex(t.as_bytes()), true, ora)) } else { None },
                });
                if let Some(v) = core.strip_prefix("OK ") {
                    let v: Vec<u32> = if v == "-" { vec![] } else { v.split(',').filter_map(|x| x.parse().ok()).collect() };
                    let dflag = [Some(true), None, Some(false)][i % 3];
                    let ds = dflag.unwrap_or(false);
                    let dora = if ci == 0 { dec_answer(tok, &v, ds).1 } else { String::new() };
                    ops.push(json!({"op": "decode", "ids": v, "flag": flag_json(dflag)}));
                    planned.push(Planned {
                        line_prefix: format!("IMPLEQ py-decode {} {} flag={:?} {}", name, ctor, dflag, ids(&v)),
                        core: dec_core(tok, &v, ds),
                        to_model: if ci == 0 { Some((this_slot, ds, ids(&v), false, dora)) } else { None },
                    });
                    all_ids.push(v);
                }
            }
            // id sequences that are not encodings of a text: single ids, prefixes and shuffles of encodings. Their
            // bytes need not be valid UTF-8 (a character split over byte-fallback tokens): decode returns raw bytes
            let mut pool: Vec<u32> = all_ids.iter().flatten().copied().collect();
            pool.sort();
            pool.dedup();
            let mut odd: Vec<Vec<u32>> = Vec::new();
            for k in 0..(if full { 40 } else { 6 }) {
                if pool.is_empty() {
                    break;
                }
                match k % 4 {
                    0 => odd.push(vec![*rng.pick(&pool)]),
                    1 => {
                        let v = rng.pick(&all_ids).clone();
                        let cut = rng.range(0, v.len());
                        odd.push(v[..cut.min(v.len())].to_vec());
                    }
                    2 => {
                        let v = rng.pick(&all_ids).clone();
                        let cut = rng.range(0, v.len());
                        odd.push(v[cut.min(v.len())..].to_vec());
                    }
                    _ => odd.push((0..rng.range(1, 6)).map(|_| *rng.pick(&pool)).collect()),
                }
            }
            for (k, v) in odd.iter().enumerate() {
                let dflag = [None, Some(true), Some(false)][k % 3];
                ops.push(json!({"op": "decode", "ids": v, "flag": flag_json(dflag)}));
                planned.push(Planned {
                    line_prefix: format!("IMPLEQ py-decode-raw {} {} flag={:?} {}", name, ctor, dflag, ids(v)),
                    core: dec_core(tok, v, dflag.unwrap_or(false)),
                    to_model: None,
                });
            }
            if !odd.is_empty() {
                ops.push(json!({"op": "decode_all", "ids": odd, "flag": Value::Null}));
                planned.push(Planned {
                    line_prefix: format!("IMPLEQ py-decode-all-raw {} {} n={}", name, ctor, odd.len()),
                    core: batch(odd.iter().map(|v| dec_core(tok, v, false)).collect()),
                    to_model: None,
                });
            }
            // ids that are not in the vocabulary: the library error must arrive as an exception
            let bad = vec![1u32, u32::MAX - 7, 2];
            ops.push(json!({"op": "decode", "ids": bad, "flag": Value::Null}));
            planned.push(Planned { line_prefix: format!("IMPLEQ py-decode-invalid {} {}", name, ctor), core: dec_core(tok, &bad, false), to_model: None });
            // batches, with default and explicit flags
            for flag in [None, Some(true)] {
                let s = flag.unwrap_or(false);
                ops.push(json!({"op": "encode_all", "texts": texts.iter().map(|t| hex(t.as_bytes())).collect::<Vec<_>>(), "flag": flag_json(flag)}));
                planned.push(Planned {
                    line_prefix: format!("IMPLEQ py-encode-all {} {} flag={:?} n={}", name, ctor, flag, texts.len()),
                    core: batch(texts.iter().map(|t| enc_core(tok, t, s)).collect()),
                    to_model: None,
                });
                ops.push(json!({"op": "decode_all", "ids": all_ids, "flag": flag_json(flag)}));
                planned.push(Planned {
                    line_prefix: format!("IMPLEQ py-decode-all {} {} flag={:?} n={}", name, ctor, flag, all_ids.len()),
                    core: batch(all_ids.iter().map(|v| dec_core(tok, v, s)).collect()),
                    to_model: None,
                });
            }
            // a batch with an invalid sequence in the middle: first error in order
            let mut with_bad = all_ids.clone();
            with_bad.insert(with_bad.len() / 2, bad.clone());
            ops.push(json!({"op": "decode_all", "ids": with_bad, "flag": Value::Null}));
            planned.push(Planned {
                line_prefix: format!("IMPLEQ py-decode-all-invalid {} {}", name, ctor),
                core: batch(with_bad.iter().map(|v| dec_core(tok, v, false)).collect()),
                to_model: None,
            });
            // definitions through the byte and file constructors
            for op in ["to_bytes", "bytes_roundtrip", "file_roundtrip"] {
                ops.push(json!({"op": op}));
                planned.push(Planned { line_prefix: format!("IMPLEQ py-{} {} {}", op, name, ctor), core: core_bytes.clone(), to_model: None });
            }
            if full {
                for which in ["surrogate", "id_too_large", "negative_id", "not_a_string", "not_a_list", "nested_wrong", "none_text"] {
                    ops.push(json!({"op": "bad_input", "which": which}));
                    planned.push(Planned { line_prefix: format!("IMPLEQ py-bad-input {} {} {}", name, ctor, which), core: "OK raised".into(), to_model: None });
                }
            }
            requests.push(json!({"ctor": ctor, "path": path.to_string_lossy(), "ops": ops}));
            plans.push((name.clone(), ctor.to_string(), planned, if ci == 0 { def_lines.clone() } else { Vec::new() }));
            out.count(&format!("ctor_{}", ctor));
        }
    }
    // well-formed data of one format through the per-format constructors of the OTHER formats: the binding must
    // answer what the core's loader of that name answers (an error, or the same definition)
    {
        let mut seen: Vec<String> = Vec::new();
        for (name, path) in shipped_models() {
            let fmt = name.split(':').next().unwrap_or("").to_string();
            let size = std::fs::metadata(&path).map(|m| m.len()).unwrap_or(0);
            if seen.contains(&fmt) || size == 0 || size > 6_000_000 {
                continue;
            }
            let Ok(data) = std::fs::read(&path) else { continue };
            seen.push(fmt.clone());
            for other in ["sentencepiece", "tokenizers", "tiktoken", "tekken"] {
                if other == fmt {
                    continue;
                }
                let core = guarded(|| {
                    let d = match other {
                        "sentencepiece" => Definition::from_sentencepiece_slice(&data),
                        "tokenizers" => Definition::from_tokenizers_slice(&data),
                        "tiktoken" => Definition::from_tiktoken_slice(&data),
                        _ => Definition::from_tekken_slice(&data),
                    };
                    d.ok().and_then(|d| Kitoken::from_definition(d).ok()).map(|t| format!("OK {:016x}", crate::c19::fnv(&t.to_vec())))
                });
                let want = match core {
                    Some(Some(ok)) => ok,
                    Some(None) => "LOADERR".to_string(),
                    None => "PANIC".to_string(),
                };
                for ctor in [format!("from_{}", other), format!("from_{}_file", other)] {
                    requests.push(json!({"ctor": ctor, "path": path.to_string_lossy(), "ops": [{"op": "to_bytes"}]}));
                    plans.push((
                        format!("cross!{}", name),
                        ctor.clone(),
                        vec![Planned { line_prefix: String::new(), core: want.clone(), to_model: None }],
                        Vec::new(),
                    ));
                    out.count("cross_format_constructor_calls");
                }
            }
        }
    }
    // malformed files through the binding: errors, not crashes
    let junk = work.join("py_junk.bin");
    std::fs::write(&junk, b"kitoken\x00\x01\xff\xff\xff").unwrap();
    let empty = work.join("py_empty.bin");
    std::fs::write(&empty, b"").unwrap();
    for (p, label) in [(&junk, "junk"), (&empty, "empty")] {
        for ctor in ["bytes", "from_file", "from_sentencepiece", "from_tokenizers", "from_tiktoken", "from_tekken", "from_tekken_file"] {
            requests.push(json!({"ctor": ctor, "path": p.to_string_lossy(), "ops": [{"op": "to_bytes"}]}));
            plans.push((label.to_string(), ctor.to_string(), Vec::new(), Vec::new()));
        }
    }
    let mut text = String::new();
    for r in &requests {
        text.push_str(&r.to_string());
        text.push('\n');
    }
    std::fs::write(&req_path, text).unwrap();
    let driver = std::env::var("KVH_PYDRIVE").unwrap_or("/verif/tools/pydrive.py".into());
    let status = std::process::Command::new("/usr/bin/python3").arg(&driver).arg(&pydir).arg(&req_path).arg(&ans_path).output();
    let ok = matches!(&status, Ok(o) if o.status.success());
    let answers: Vec<Value> = std::fs::read_to_string(&ans_path).unwrap_or_default().lines().filter_map(|l| serde_json::from_str(l).ok()).collect();
    if !ok || answers.len() != requests.len() {
        let err = status.map(|o| String::from_utf8_lossy(&o.stderr).chars().rev().take(300).collect::<String>().chars().rev().collect::<String>()).unwrap_or_else(|e| e.to_string());
        out.push(format!(
            "IMPLEQ py-run :: DIFF the Python process answered {} of {} requests (a crash of the interpreter) {}",
            answers.len(),
            requests.len(),
            err.replace('\n', " ")
        ));
    }
    for ((name, ctor, planned, def_lines), ans) in plans.iter().zip(answers.iter()) {
        let mut lines = def_lines.clone();
        let load = ans["load"].as_str().unwrap_or("?");
        if name.starts_with("cross!") {
            let want = &planned[0].core;
            let got = if load == "OK" {
                ans["ops"].as_array().and_then(|a| a.first()).and_then(|v| v.as_str()).unwrap_or("?").to_string()
            } else if load.starts_with("ERR") {
                "LOADERR".to_string()
            } else {
                load.to_string()
            };
            lines.push(format!("IMPLEQ py-cross-format {} {} :: {}", &name[6..], ctor, if &got == want { "OK".to_string() } else { format!("DIFF core=[{}] binding=[{}]", want, got) }));
            out.count("binding_calls_compared");
            out.group(lines);
            continue;
        }
        if planned.is_empty() {
            // malformed file: any ordinary exception is fine, a panic is not; empty Tiktoken data loads
            let verdict = if load.starts_with("PANIC") { format!("DIFF binding=[{}]", load) } else { "OK".to_string() };
            lines.push(format!("IMPLEQ py-load-malformed {} {} :: {}", name, ctor, verdict));
            out.group(lines);
            continue;
        }
        lines.push(format!("IMPLEQ py-load {} {} :: {}", name, ctor, if load == "OK" { "OK".to_string() } else { format!("DIFF core=[OK] binding=[{}]", load) }));
        let got: Vec<String> = ans["ops"].as_array().map(|a| a.iter().map(|v| v.as_str().unwrap_or("?").to_string()).collect()).unwrap_or_default();
        for (i, p) in planned.iter().enumerate() {
            let g = got.get(i).cloned().unwrap_or("MISSING".into());
            lines.push(format!("{} :: {}", p.line_prefix, if g == p.core { "OK".to_string() } else { format!("DIFF core=[{}] binding=[{}]", p.core, g) }));
            out.count("binding_calls_compared");
            if let Some((slot, s, arg, is_enc, ora)) = &p.to_model {
                // what Python returned goes to the Lean model of the core pipeline
                if g.starts_with("OK ") {
                    lines.push(format!("{} {} {} {}{} :: {}", if *is_enc { "ENC" } else { "DEC" }, slot, *s as u8, arg, ora, g));
                    out.count("binding_answers_to_model");
                }
            }
        }
        out.group(lines);
    }
    let _ = std::fs::remove_file(&junk);
    let _ = std::fs::remove_file(&empty);
}

