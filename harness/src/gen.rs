//! Generators shared by the property modules: alphabets, texts, small definitions.
use crate::rng::Rng;
use kitoken::*;

pub const ALPHABETS: &[&[char]] = &[
    &['a', 'b', 'c'],
    &['a', 'b', 'é', '▁'],
    &['x', 'ß', '语', '😀'],
    &['a', ' ', 'é', '語', '\u{0301}'],
    &['a', 'b', ' ', '▁', '#'],
    // only multi-byte characters: token byte lengths exceed character counts
    &['é', '語'],
    &['😀', '語', 'ß'],
];

pub fn random_string(rng: &mut Rng, alphabet: &[char], max_len: usize) -> String {
    let n = rng.range(0, max_len);
    (0..n).map(|_| *rng.pick(alphabet)).collect()
}

/// Every string over `alphabet` with at most `max_len` characters.
pub fn all_strings(alphabet: &[char], max_len: usize) -> Vec<String> {
    let mut out = vec![String::new()];
    let mut cur = vec![String::new()];
    for _ in 0..max_len {
        let mut next = Vec::new();
        for s in &cur {
            for &a in alphabet {
                let mut t = s.clone();
                t.push(a);
                next.push(t);
            }
        }
        out.extend(next.iter().cloned());
        cur = next;
    }
    out
}

const SCALAR_CLASSES: &[(u32, u32)] = &[
    (0x0, 0x1f), (0x20, 0x7e), (0x7f, 0x9f), (0xa0, 0x2ff), (0x300, 0x36f), (0x370, 0x7ff), (0x800, 0x1fff),
    (0x2000, 0x206f), (0x2500, 0x25ff), (0x3000, 0x30ff), (0x4e00, 0x4eff), (0xac00, 0xacff), (0xd7ff, 0xd7ff),
    (0xe000, 0xe0ff), (0xfe00, 0xfe0f), (0xff00, 0xffef), (0xfff0, 0xffff), (0x10000, 0x100ff), (0x1f300, 0x1f6ff),
    (0x2f800, 0x2fa2f), (0xe0000, 0xe01ef), (0x10ff00, 0x10ffff),
];
pub fn random_scalar(rng: &mut Rng) -> char {
    loop {
        let (lo, hi) = *rng.pick(SCALAR_CLASSES);
        if let Some(c) = char::from_u32(rng.range(lo as usize, hi as usize) as u32) {
            return c;
        }
    }
}
const SNIPPETS: &[&str] = &[
    "Hello, world!", " the quick brown fox", "naïve café", "日本語のテキスト", "👩‍👩‍👧‍👦", "e\u{0301}", "\u{0}", "\r\n\r\n", "   ",
    "\t\tcode();", "1234567890", "don't I'll we've", "Ünïcödé", "مرحبا بالعالم", "▁▁a▁", "<|endoftext|>", "<s>", "</s>", "[INST]",
    "<unk>", "<pad>", "##ing", "x\u{200d}y", "\u{feff}", "ǅ", "ﬁ", "Ⅻ", "a\u{0300}\u{0301}\u{0302}", "🇩🇪", "\u{2028}",
];
/// A text mixing snippets, scalar classes and runs (some longer than 192 units).
pub fn random_text(rng: &mut Rng, max_parts: usize) -> String {
    let mut s = String::new();
    let n = rng.range(0, max_parts);
    for _ in 0..n {
        match rng.below(10) {
            0..=3 => s.push_str(*rng.pick(SNIPPETS)),
            4..=5 => s.push(random_scalar(rng)),
            6 => {
                let c = if rng.chance(1, 2) { *rng.pick(&['a', ' ', 'é', '語', '😀', '\n']) } else { random_scalar(rng) };
                let k = if rng.chance(1, 6) { rng.range(190, 260) } else { rng.range(2, 12) };
                for _ in 0..k {
                    s.push(c);
                }
            }
            7 => s.push(' '),
            _ => {
                let k = rng.range(1, 8);
                for _ in 0..k {
                    s.push((b'a' + rng.below(26) as u8) as char);
                }
            }
        }
    }
    s
}

#[derive(Clone, Copy, PartialEq, Eq, Debug)]
pub enum Kind {
    BpeBytes,
    BpeChars,
    Unigram,
    WordPiece,
}

pub fn all_fallback_lists(max_len: usize) -> Vec<Vec<Fallback>> {
    let base = [Fallback::Bytes, Fallback::Unknown, Fallback::Skip];
    let mut out = vec![vec![]];
    let mut cur: Vec<Vec<Fallback>> = vec![vec![]];
    for _ in 0..max_len {
        let mut next = Vec::new();
        for l in &cur {
            for f in base {
                let mut m = l.clone();
                m.push(f);
                next.push(m);
            }
        }
        out.extend(next.iter().cloned());
        cur = next;
    }
    out
}

pub struct DefSpec {
    pub kind: Kind,
    pub alphabet: Vec<char>,
    /// probability (out of 8) that a unit of the alphabet is missing from the vocabulary
    pub holes: usize,
    pub all_bytes: bool,
    pub merges: usize,
    pub eow: Option<String>,
    pub prefix: Option<String>,
    pub fallback: Vec<Fallback>,
    pub unknown: bool,
    pub max_word_chars: u32,
    pub ties: bool,
}

pub fn shuffle<T>(rng: &mut Rng, v: &mut [T]) {
    for i in (1..v.len()).rev() {
        let j = rng.below(i + 1);
        v.swap(i, j);
    }
}

/// Token byte strings of a small vocabulary: units (bytes or characters, with holes), all 256
/// bytes if requested, and `merges` concatenations of existing entries.
pub fn gen_vocab_bytes(rng: &mut Rng, spec: &DefSpec) -> Vec<Vec<u8>> {
    let mut toks: Vec<Vec<u8>> = Vec::new();
    let mut push = |toks: &mut Vec<Vec<u8>>, t: Vec<u8>| {
        if !t.is_empty() && !toks.contains(&t) {
            toks.push(t);
        }
    };
    if spec.all_bytes {
        for b in 0..=255u8 {
            push(&mut toks, vec![b]);
        }
    }
    for &c in &spec.alphabet {
        let enc = c.to_string().into_bytes();
        match spec.kind {
            Kind::BpeBytes => {
                for &b in &enc {
                    if !rng.chance(spec.holes, 8) {
                        push(&mut toks, vec![b]);
                    }
                }
            }
            _ => {
                if !rng.chance(spec.holes, 8) {
                    push(&mut toks, enc.clone());
                }
                if let Some(e) = &spec.eow {
                    if rng.chance(1, 2) {
                        let mut t = enc.clone();
                        t.extend_from_slice(e.as_bytes());
                        push(&mut toks, t);
                    }
                }
                if let Some(p) = &spec.prefix {
                    if rng.chance(3, 4) {
                        let mut t = p.as_bytes().to_vec();
                        t.extend_from_slice(&enc);
                        push(&mut toks, t);
                    }
                }
            }
        }
    }
    if let (Kind::BpeBytes, Some(e)) = (spec.kind, &spec.eow) {
        for &c in &spec.alphabet {
            if rng.chance(1, 2) {
                let enc = c.to_string().into_bytes();
                let mut t = vec![*enc.last().unwrap()];
                t.extend_from_slice(e.as_bytes());
                push(&mut toks, t);
            }
        }
    }
    for _ in 0..spec.merges {
        if toks.is_empty() {
            break;
        }
        let a = rng.pick(&toks).clone();
        let b = rng.pick(&toks).clone();
        let strip = |t: &Vec<u8>| -> Vec<u8> {
            match &spec.prefix {
                Some(p) if t.starts_with(p.as_bytes()) => t[p.len()..].to_vec(),
                _ => t.clone(),
            }
        };
        let mut t = a.clone();
        // never put an end-of-word suffix in the middle of a token
        if let Some(e) = &spec.eow {
            if t.ends_with(e.as_bytes()) {
                t.truncate(t.len() - e.len());
            }
        }
        t.extend_from_slice(&strip(&b));
        if t.len() <= 24 {
            push(&mut toks, t);
        }
    }
    toks
}

pub fn gen_definition(rng: &mut Rng, spec: &DefSpec) -> Definition {
    let mut toks = gen_vocab_bytes(rng, spec);
    shuffle(rng, &mut toks);
    // ids: a random injective assignment, sometimes sparse / large
    let n = toks.len();
    let mut id_pool: Vec<u32> = match rng.below(4) {
        0 => (0..n as u32).collect(),
        1 => (0..n as u32).map(|i| i * 3 + 7).collect(),
        2 => (0..n as u32).map(|i| u32::MAX - 1 - i).collect(),
        _ => (100..100 + n as u32).collect(),
    };
    shuffle(rng, &mut id_pool);
    let vocab: Vocab = toks.iter().zip(id_pool.iter()).map(|(b, &id)| Token { id, bytes: b.clone() }).collect();
    let mut specials: SpecialVocab = Vec::new();
    if spec.unknown {
        specials.push(SpecialToken {
            id: 5_000_000,
            bytes: b"<unk>".to_vec(),
            kind: SpecialTokenKind::Unknown,
            ident: Some("unk".into()),
            score: 0.0,
            extract: false,
        });
    }
    let mut config = Configuration::default();
    config.fallback = spec.fallback.clone();
    if let Some(e) = &spec.eow {
        config.templates.push(Template { content: e.clone(), position: InsertionPosition::WordEnd });
    }
    if let Some(p) = &spec.prefix {
        config.templates.push(Template { content: p.clone(), position: InsertionPosition::WordContinuation });
    }
    let model = match spec.kind {
        Kind::BpeBytes => Model::BytePair { vocab, chars: false },
        Kind::BpeChars => Model::BytePair { vocab, chars: true },
        Kind::Unigram => {
            // ties come in two flavours: exact ties, and near ties (sums that differ by a few 1/1024, which
            // only an accumulator with enough precision at the 1e6 restart offset tells apart)
            let near = spec.ties && rng.chance(1, 2);
            let scores = vocab
                .iter()
                .map(|_| {
                    if near {
                        -(rng.range(0, 3) as f32) - (rng.range(0, 4) as f32) / 1024.0
                    } else if spec.ties {
                        -(rng.range(0, 3) as f32)
                    } else {
                        -(rng.range(0, 4000) as f32) / 256.0
                    }
                })
                .collect();
            Model::Unigram { vocab, scores }
        }
        Kind::WordPiece => Model::WordPiece { vocab, max_word_chars: spec.max_word_chars },
    };
    Definition { meta: Metadata::default(), model, specials, config }
}
