//! Broad ENC/DEC correspondence over shipped definitions (used while developing the model).
use crate::defs::*;
use crate::gen::*;
use crate::rng::Rng;
use crate::sink::Sink;
use kitoken::Definition;

pub fn gen(rng: &mut Rng, thorough: bool, out: &mut Sink) {
    let n = if thorough { 400 } else { 40 };
    let filter = std::env::var("KVH_MODELS").ok();
    for (slot, (name, path)) in shipped_models().into_iter().enumerate() {
        if let Some(f) = &filter {
            if !f.split(',').any(|p| name.contains(p)) {
                continue;
            }
        }
        let def = match Definition::from_file(&path) {
            Ok(d) => d,
            Err(e) => {
                eprintln!("skip {}: {:?}", name, e);
                continue;
            }
        };
        let mut lines = Vec::new();
        let tk = load(slot, &name, def, &mut lines);
        for _ in 0..n {
            let text = random_text(rng, 8);
            for s in [false, true] {
                if let Some(l) = enc_line("ENC", &tk, &text, s) {
                    lines.push(l);
                }
            }
            if let Some(tok) = &tk.tok {
                if let Ok(ids) = tok.encode(&text, true) {
                    for s in [false, true] {
                        if let Some(l) = dec_line(&tk, &ids, s) {
                            lines.push(l);
                        }
                    }
                }
            }
        }
        out.group(lines);
    }
}
